#!/bin/bash
# tools/confirm_seeded.sh <dir-with-patch.diff+demo.rs> [name]
# Confirms a seeded change in a scratch worktree (outside /repo and /verif):
#   demo passes on the pristine tree, patch applies, library tests pass with it, demo fails with it.
# Prints one JSON line with the outcome; refreshes patch.diff against the current /repo HEAD when
# it only applies with a 3-way merge.
set -u
D="$1"; NAME="${2:-$(basename "$D")}"
CS="${VERIF_CS:-/tmp/verif-cs}"
WT=$CS/wt
mkdir -p "$CS"
if [ ! -d "$WT" ]; then git -C /repo worktree add -q --detach "$WT" HEAD || exit 2; fi
git -C "$WT" checkout -q -- . && git -C "$WT" clean -qfd -e target && git -C "$WT" checkout -q --detach "$(git -C /repo rev-parse HEAD)" || exit 2
mkdir -p "$WT/tests"; cp "$D/demo.rs" "$WT/tests/demo.rs"
cd "$WT"
pristine_demo=fail; cargo test --offline --test demo >$CS/p.log 2>&1 && pristine_demo=pass
applies=clean
if ! git apply --check "$D/patch.diff" 2>/dev/null; then
  if git apply -3 "$D/patch.diff" >/dev/null 2>&1; then
    applies=3way; git reset -q; git diff -- src > "$D/patch.diff.new"; mv "$D/patch.diff.new" "$D/patch.diff"; git checkout -q -- src
  else
    applies=no
  fi
fi
lib=skip; mut_demo=skip
if [ "$applies" != "no" ]; then
  git apply "$D/patch.diff"
  lib=fail; cargo test --offline --lib >$CS/l.log 2>&1 && lib=pass
  mut_demo=pass; cargo test --offline --test demo >$CS/m.log 2>&1 || mut_demo=fail
  grep -q "error\[E\|could not compile" $CS/m.log && mut_demo=compile-error
fi
git checkout -q -- . ; rm -rf tests
echo "{\"name\":\"$NAME\",\"head\":\"$(git -C /repo rev-parse --short HEAD)\",\"applies\":\"$applies\",\"demo_on_pristine\":\"$pristine_demo\",\"lib_tests_with_patch\":\"$lib\",\"demo_with_patch\":\"$mut_demo\"}"
