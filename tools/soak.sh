#!/bin/bash
# tools/soak.sh <first-seed> <last-seed> [ids...] — runs the quick tier of every check under many VERIF_SEED
# values against the unchanged tree, from a private copy of the binary, writing into a scratch root.
# Any line printed is a false alarm (or a new finding) to triage. Evidence/replays go to /tmp/verif-soak.
V="$(cd "$(dirname "$0")/.." && pwd)"
mkdir -p /tmp/verif-soak
cp "$V/target/release/dst" /tmp/verif-soak/dst
cp "$V/known_findings.json" /tmp/verif-soak/
A=$1; B=$2; shift 2
IDS="${*:-$(/tmp/verif-soak/dst list)}"
for seed in $(seq $A $B); do
  for id in $IDS; do
    out=$(VERIF_ROOT=/tmp/verif-soak VERIF_SEED=$seed /tmp/verif-soak/dst $id quick 2>&1)
    rc=$?
    if [ $rc -ne 0 ]; then echo "SOAK seed=$seed id=$id exit=$rc"; echo "$out" | grep -E "^(violation|harness)" | cut -c1-500; fi
  done
  echo "soak seed $seed done"
done
