#!/bin/bash
# tools/matrix.sh [name...] — runs, for every seeded change under /verif/seeded (or the named ones), the quick
# check of the property it targets plus the extra checks listed in its meta.json ("also_run"), against a
# scratch checkout with the patch applied; writes /verif/seeded/MATRIX.md and updates meta.json "caught_by".
set -u
V="$(cd "$(dirname "$0")/.." && pwd)"
cd "$V"
NAMES="${*:-$(ls seeded | grep -v MATRIX)}"
# freeze the harness sources for the duration of the sweep
MWD="${VERIF_MW:-/tmp/verif-mw}"; rm -rf "$MWD/src-snap"; mkdir -p "$MWD"; cp -r "$V/dst/src" "$MWD/src-snap"
export VERIF_SRC="$MWD/src-snap"
for n in $NAMES; do
  d="seeded/$n"; [ -f "$d/patch.diff" ] || continue
  if [ -n "${MATRIX_TARGET_ONLY:-}" ]; then
    ids=$(python3 -c "import json;m=json.load(open('$d/meta.json'));print(m['property'])")
  else
    ids=$(python3 -c "import json;m=json.load(open('$d/meta.json'));print(' '.join([m['property']]+m.get('also_run',[])))")
  fi
  res=$(tools/mutant_run.sh "$V/$d/patch.diff" $ids 2>&1 | grep '^mutant=')
  python3 - "$d" <<EOF
import json,sys,re,os
d=sys.argv[1]
m=json.load(open(d+'/meta.json'))
caught=[];missed=[];detail={}
for l in '''$res'''.splitlines():
    k=re.search(r'check=(\S+) exit=(\d+) secs=(\d+) ?(.*)',l)
    if not k: continue
    cid,rc,secs,rest=k.group(1),int(k.group(2)),k.group(3),k.group(4)
    (caught if rc==1 else missed).append(cid if rc in (0,1) else cid+'(harness-exit-%d)'%rc)
    cls=re.search(r'class=(\S+)',rest); run=re.search(r' run=(\d+)',rest)
    detail[cid]={"exit":rc,"class":cls.group(1) if cls else None,"first_run":int(run.group(1)) if run else None}
# results of this sweep replace the entries of the checks it ran; entries of other checks stay
cr=m.get('check_results',{}) if os.environ.get('MATRIX_TARGET_ONLY') else {}
cr.update(detail)
m['check_results']=cr
m['caught_by']=[c for c,v in cr.items() if v.get('exit')==1]
m['not_caught_by']=[c+('' if v.get('exit') in (0,1) else '(harness-exit-%s)'%v.get('exit')) for c,v in cr.items() if v.get('exit')!=1]
m['matrix_harness_commit']=os.popen('git -C /verif rev-parse --short HEAD').read().strip()
caught=m['caught_by']; missed=m['not_caught_by']
json.dump(m,open(d+'/meta.json','w'),indent=1)
print(d, 'caught_by', caught, 'missed', missed)
EOF
done
python3 - <<'EOF'
import json,glob,os
rows=[]
for d in sorted(glob.glob('seeded/*/meta.json')):
    m=json.load(open(d)); n=os.path.basename(os.path.dirname(d))
    cr=m.get('check_results',{})
    cell=lambda c: (f"{c}: caught ({cr[c]['class']}, run {cr[c]['first_run']})" if cr.get(c,{}).get('exit')==1 else f"{c}: missed")
    rows.append(f"| {n} | {m['property']} | {m.get('summary','')} | {'; '.join(cell(c) for c in cr)} |")
open('seeded/MATRIX.md','w').write("# Seeded changes vs checks (quick tier, default seed)\n\n| change | targets | what it does | result per check |\n|---|---|---|---|\n"+"\n".join(rows)+"\n")
print(len(rows),'rows')
EOF
