#!/usr/bin/env python3
"""Folds the output lines of tools/confirm_seeded.sh (one JSON object per line, any number of log
files given as arguments) into /verif/seeded/<name>/meta.json under the key "confirmed"."""
import json, sys, os

for path in sys.argv[1:]:
    for line in open(path):
        line = line.strip()
        if not line.startswith("{"):
            continue
        try:
            d = json.loads(line)
        except ValueError:
            continue
        mp = f"/verif/seeded/{d['name']}/meta.json"
        if not os.path.exists(mp):
            continue
        m = json.load(open(mp))
        m["confirmed"] = {
            "repo_head": d["head"],
            "patch_applies": d["applies"],
            "demo_on_pristine_tree": d["demo_on_pristine"],
            "pinned_lib_tests_with_patch": d["lib_tests_with_patch"],
            "demo_with_patch": d["demo_with_patch"],
            "how": "tools/confirm_seeded.sh in a scratch worktree: cargo test --offline --test demo (pristine), git apply patch.diff, cargo test --offline --lib, cargo test --offline --test demo",
        }
        m["keep"] = d["demo_on_pristine"] == "pass" and d["lib_tests_with_patch"] == "pass" and d["demo_with_patch"] == "fail"
        json.dump(m, open(mp, "w"), indent=1)
        print(d["name"], "keep" if m["keep"] else "NOT CONFIRMED", d)
