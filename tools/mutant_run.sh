#!/bin/bash
# tools/mutant_run.sh <patch.diff> <check-id>...   — sensitivity run of checks against a mutated checkout.
# Uses one persistent scratch worktree + shadow build dir under /tmp (outside /repo and /verif);
# `tools/mutant_run.sh --clean` removes them. Never touches /repo's working tree.
set -u
VERIF="$(cd "$(dirname "$0")/.." && pwd)"
MW="${VERIF_MW:-/tmp/verif-mw}"
WT=$MW/wt
SH=$MW/shadow
OUT=$MW/out
if [ "${1:-}" = "--clean" ]; then
  git -C /repo worktree remove --force "$WT" 2>/dev/null
  rm -rf "$MW"
  git -C /repo worktree prune
  exit 0
fi
PATCH="$1"; shift
mkdir -p "$MW" "$OUT"
if [ ! -d "$WT" ]; then git -C /repo worktree add -q --detach "$WT" HEAD || exit 2; fi
git -C "$WT" checkout -q -- . && git -C "$WT" clean -qfd && git -C "$WT" checkout -q --detach "$(git -C /repo rev-parse HEAD)" || { echo "WORKTREE-RESET-FAILED"; exit 2; }
if [ "$PATCH" != "none" ]; then
  git -C "$WT" apply "$PATCH" || { echo "PATCH-DOES-NOT-APPLY $PATCH"; exit 3; }
fi
cp "$VERIF/known_findings.json" "$OUT/known_findings.json"
rc_all=0
for id in "$@"; do
  s=$(date +%s)
  REPO="$WT" VERIF_SHADOW="$SH" VERIF_ROOT="$OUT" "$VERIF/check" "$id" quick > "$OUT/$id.log" 2>&1
  rc=$?
  e=$(date +%s)
  line=$(grep -m1 "^violation class" "$OUT/$id.log" | cut -c1-300)
  echo "mutant=$(basename "$(dirname "$PATCH")")/$(basename "$PATCH") check=$id exit=$rc secs=$((e-s)) $line"
  [ $rc -ne 0 ] && rc_all=1
done
exit $rc_all
