//! Generic run loop: seeded scenario generation, parallel execution on fresh
//! threads, violation collection, minimisation, replay files, evidence.

use std::collections::{BTreeMap, HashSet};
use std::sync::atomic::{AtomicBool, AtomicU64, Ordering};
use std::sync::Mutex;
use std::time::Instant;

use serde::de::DeserializeOwned;
use serde::Serialize;
use serde_json::{json, Value};

use crate::rng::{mix, Rng};

pub const DEFAULT_SEED: u64 = 20260921;

#[derive(Clone, Copy, PartialEq, Eq, Debug)]
pub enum Tier {
    Quick,
    Thorough,
}
impl Tier {
    pub fn name(self) -> &'static str {
        match self {
            Tier::Quick => "quick",
            Tier::Thorough => "thorough",
        }
    }
}

#[derive(Clone, Debug, Serialize, serde::Deserialize)]
pub struct Violation {
    pub class: String,
    pub step: u64,
    pub detail: String,
}

pub type Stats = BTreeMap<&'static str, u64>;

#[derive(Debug, Default)]
pub struct Outcome {
    pub violation: Option<Violation>,
    /// Hash over every event, compared state digest and device call of the run.
    pub trace: u64,
    /// Fault/probe counters (configured and fired) for this run.
    pub stats: Stats,
    /// Some(fingerprint) iff the run is non-trivial by the check's rule.
    pub fingerprint: Option<u64>,
    /// Simulated time covered (instruction boundaries or events).
    pub sim_time: u64,
}
impl Outcome {
    pub fn bump(&mut self, k: &'static str) {
        *self.stats.entry(k).or_insert(0) += 1;
    }
    pub fn add(&mut self, k: &'static str, n: u64) {
        *self.stats.entry(k).or_insert(0) += n;
    }
}

pub struct Meta {
    pub rule: &'static str,
    pub components_real: &'static [&'static str],
    pub components_stub: &'static [&'static str],
    pub assumptions: &'static [&'static str],
    pub level: &'static str,
    /// description of any sub-space enumerated completely inside runs
    pub enumerated: &'static str,
}

pub trait Check: Sync {
    type Scn: Serialize + DeserializeOwned + Clone + Send + Sync;
    fn id(&self) -> &'static str;
    fn meta(&self) -> Meta;
    fn quick_runs(&self) -> u64;
    /// Upper bound on runs for the thorough tier (besides the wall budget).
    fn thorough_runs(&self) -> u64 {
        u64::MAX
    }
    fn generate(&self, rng: &mut Rng, tier: Tier, index: u64) -> Self::Scn;
    /// Ambient entropy seed under which the run's (first) thread executes.
    fn entropy(&self, scn: &Self::Scn) -> u64;
    fn execute(&self, scn: &Self::Scn) -> Outcome;
    /// Candidate simplifications, most aggressive first.
    fn shrink(&self, _scn: &Self::Scn) -> Vec<Self::Scn> {
        vec![]
    }
}

pub fn verif_seed() -> u64 {
    std::env::var("VERIF_SEED").ok().and_then(|s| s.trim().parse::<i128>().ok()).map(|v| v as u64).unwrap_or(DEFAULT_SEED)
}
pub fn jobs() -> usize {
    std::env::var("VERIF_JOBS").ok().and_then(|s| s.parse().ok()).unwrap_or_else(|| {
        std::thread::available_parallelism().map(|n| n.get()).unwrap_or(4)
    })
}
fn budget_s(tier: Tier) -> f64 {
    let d = match tier {
        Tier::Quick => 120.0,
        Tier::Thorough => 300.0,
    };
    std::env::var("VERIF_BUDGET_S").ok().and_then(|s| s.parse().ok()).unwrap_or(d)
}
pub fn verif_root() -> String {
    std::env::var("VERIF_ROOT").unwrap_or_else(|_| "/verif".to_string())
}

/// Executes one scenario on a fresh OS thread under its entropy seed.
pub fn exec_isolated<C: Check>(c: &C, scn: &C::Scn) -> Outcome {
    let ent = c.entropy(scn);
    let res = std::thread::scope(|s| {
        std::thread::Builder::new()
            .stack_size(16 << 20)
            .spawn_scoped(s, || {
                crate::entropy::set_thread_entropy(ent);
                c.execute(scn)
            })
            .expect("spawn")
            .join()
    });
    match res {
        Ok(o) => o,
        Err(p) => {
            let msg = panic_msg(&p);
            Outcome {
                violation: Some(Violation { class: "panic-escaped".into(), step: 0, detail: msg }),
                ..Default::default()
            }
        }
    }
}

pub fn panic_msg(p: &Box<dyn std::any::Any + Send>) -> String {
    if let Some(s) = p.downcast_ref::<&str>() {
        s.to_string()
    } else if let Some(s) = p.downcast_ref::<String>() {
        s.clone()
    } else {
        "<non-string panic>".into()
    }
}

thread_local! {
    pub static LAST_PANIC: std::cell::RefCell<Option<String>> = const { std::cell::RefCell::new(None) };
}
/// Silences panic printing (library panics are expected events in C16/C19) and
/// records message + location for the violation detail.
pub fn install_panic_hook() {
    std::panic::set_hook(Box::new(|info| {
        let loc = info.location().map(|l| format!("{}:{}", l.file(), l.line())).unwrap_or_default();
        let msg = if let Some(s) = info.payload().downcast_ref::<&str>() {
            s.to_string()
        } else if let Some(s) = info.payload().downcast_ref::<String>() {
            s.clone()
        } else {
            "<panic>".into()
        };
        if std::env::var_os("VERIF_DEBUG").is_some() {
            eprintln!("panic: {msg} @ {loc}");
        }
        LAST_PANIC.with(|l| *l.borrow_mut() = Some(format!("{msg} @ {loc}")));
    }));
}
/// catch_unwind wrapper returning the panic message.
pub fn guarded<T>(f: impl FnOnce() -> T) -> Result<T, String> {
    match std::panic::catch_unwind(std::panic::AssertUnwindSafe(f)) {
        Ok(v) => Ok(v),
        Err(p) => {
            let m = LAST_PANIC.with(|l| l.borrow_mut().take()).unwrap_or_else(|| panic_msg(&p));
            Err(m)
        }
    }
}

struct FinishGuard<'a>(&'a AtomicU64);
impl Drop for FinishGuard<'_> {
    fn drop(&mut self) {
        self.0.fetch_add(1, Ordering::Relaxed);
    }
}

struct Found<S> {
    index: u64,
    run_seed: u64,
    scn: S,
    v: Violation,
}

#[derive(serde::Deserialize, Debug, Clone)]
pub struct KnownFinding {
    pub property: String,
    pub class: String,
    #[serde(default)]
    pub site: String,
    #[serde(default)]
    pub what: String,
}
#[derive(serde::Deserialize, Debug, Default)]
pub struct KnownFile {
    #[serde(default)]
    pub findings: Vec<KnownFinding>,
    #[serde(default)]
    pub fixed: Vec<Value>,
}
pub fn load_known() -> KnownFile {
    let p = format!("{}/known_findings.json", verif_root());
    match std::fs::read_to_string(&p) {
        Ok(s) => serde_json::from_str(&s).unwrap_or_else(|e| {
            eprintln!("harness error: cannot parse {p}: {e}");
            std::process::exit(2)
        }),
        Err(_) => KnownFile::default(),
    }
}
fn is_known<'a>(k: &'a KnownFile, prop: &str, v: &Violation) -> Option<&'a KnownFinding> {
    k.findings.iter().find(|f| f.property == prop && f.class == v.class && (f.site.is_empty() || v.detail.contains(&f.site)))
}

pub fn minimise<C: Check>(c: &C, scn: &C::Scn, class: &str) -> (C::Scn, u64) {
    let t0 = Instant::now();
    let mut cur = scn.clone();
    let mut execs = 0u64;
    'outer: loop {
        // a shrinker that trips over an already-shrunk scenario must not take the run down with it
        let cands = std::panic::catch_unwind(std::panic::AssertUnwindSafe(|| c.shrink(&cur))).unwrap_or_default();
        for cand in cands {
            if execs >= 3000 || t0.elapsed().as_secs_f64() > 30.0 {
                break 'outer;
            }
            execs += 1;
            let o = exec_isolated(c, &cand);
            if o.violation.as_ref().is_some_and(|v| v.class == class) {
                cur = cand;
                continue 'outer;
            }
        }
        break;
    }
    (cur, execs)
}

fn write_replay<C: Check>(c: &C, seed: u64, f: &Found<C::Scn>, scn: &C::Scn, v: &Violation, trace: u64, suffix: &str) -> String {
    let dir = format!("{}/replays", verif_root());
    let _ = std::fs::create_dir_all(&dir);
    let cls: String = v.class.chars().map(|ch| if ch.is_ascii_alphanumeric() || ch == '-' { ch } else { '_' }).collect();
    let path = format!("{dir}/{}-{:016x}-{}{}.json", c.id(), f.run_seed, cls, suffix);
    let doc = json!({
        "property": c.id(),
        "class": v.class,
        "verif_seed": seed,
        "run": f.index,
        "run_seed": f.run_seed,
        "scenario": scn,
        "expect": { "step": v.step, "detail": v.detail },
        "trace_hash": format!("{trace:016x}"),
    });
    std::fs::write(&path, serde_json::to_string_pretty(&doc).unwrap()).expect("write replay");
    path
}

pub fn run_check<C: Check>(c: &C, tier: Tier, dump_traces: Option<&str>, runs_override: Option<u64>) -> i32 {
    let seed = verif_seed();
    let id = c.id();
    let nj = jobs();
    let budget = budget_s(tier);
    let max_runs = runs_override.unwrap_or(match tier {
        Tier::Quick => c.quick_runs(),
        Tier::Thorough => c.thorough_runs(),
    });
    println!("check={id} tier={} VERIF_SEED={seed} jobs={nj} max_runs={max_runs} budget_s={budget}", tier.name());
    let known = load_known();

    let t0 = Instant::now();
    let next = AtomicU64::new(0);
    let stop = AtomicBool::new(false);
    let over_budget = AtomicBool::new(false);

    struct Agg<S> {
        evals: u64,
        sim_time: u64,
        stats: Stats,
        fps: HashSet<u64>,
        found: Vec<Found<S>>,
        known_hits: BTreeMap<String, (u64, String)>,
        samples: Vec<(u64, u64, S)>, // (index, score, scn)
        traces: Vec<(u64, u64)>,
    }
    let agg = Mutex::new(Agg::<C::Scn> {
        evals: 0,
        sim_time: 0,
        stats: Stats::new(),
        fps: HashSet::new(),
        found: vec![],
        known_hits: BTreeMap::new(),
        samples: vec![],
        traces: vec![],
    });

    // runs in flight, for the watchdog: a run that does not come back (a library call that never returns —
    // every clock and device of the simulated world is driven from inside such calls) cannot be stopped
    // from outside, so it is reported as a violation with its scenario as the replay file and the
    // process ends there
    let inflight: Mutex<BTreeMap<u64, (Instant, u64, C::Scn)>> = Mutex::new(BTreeMap::new());
    let finished = AtomicU64::new(0);
    let hang_s: f64 = std::env::var("VERIF_HANG_S").ok().and_then(|s| s.parse().ok()).unwrap_or(240.0);

    std::thread::scope(|s| {
        s.spawn(|| {
            while finished.load(Ordering::Relaxed) < nj as u64 {
                std::thread::sleep(std::time::Duration::from_millis(500));
                let stuck = inflight.lock().unwrap().iter().find(|(_, (t, _, _))| t.elapsed().as_secs_f64() > hang_s).map(|(i, (_, rs, scn))| (*i, *rs, scn.clone()));
                if let Some((i, run_seed, scn)) = stuck {
                    let v = Violation { class: "run-does-not-terminate".into(), step: 0, detail: format!("run #{i} has been executing for more than {hang_s} s of wall clock (a run takes milliseconds): a call into the library does not return") };
                    let f = Found { index: i, run_seed, scn: scn.clone(), v: v.clone() };
                    let path = write_replay(c, seed, &f, &scn, &v, 0, "");
                    println!("violation class={} run={} run_seed={:#x} step=0 minimise_execs=0 detail={}", v.class, i, run_seed, v.detail);
                    println!("VIOLATION property={id} replay={path}");
                    use std::io::Write;
                    let _ = std::io::stdout().flush();
                    std::process::exit(1);
                }
            }
        });
        for _ in 0..nj {
            s.spawn(|| {
                let _done = FinishGuard(&finished);
                let mut local_evals = 0u64;
                loop {
                    if stop.load(Ordering::Relaxed) {
                        break;
                    }
                    let i = next.fetch_add(1, Ordering::Relaxed);
                    if i >= max_runs {
                        break;
                    }
                    if local_evals % 16 == 0 && t0.elapsed().as_secs_f64() > budget {
                        if tier == Tier::Quick && runs_override.is_none() {
                            over_budget.store(true, Ordering::Relaxed);
                        }
                        break;
                    }
                    local_evals += 1;
                    let run_seed = mix(seed, id, i);
                    let mut rng = Rng::new(run_seed);
                    let scn = c.generate(&mut rng, tier, i);
                    inflight.lock().unwrap().insert(i, (Instant::now(), run_seed, scn.clone()));
                    let o = exec_isolated(c, &scn);
                    inflight.lock().unwrap().remove(&i);
                    let mut a = agg.lock().unwrap();
                    a.evals += 1;
                    a.sim_time += o.sim_time;
                    for (k, v) in &o.stats {
                        *a.stats.entry(k).or_insert(0) += v;
                    }
                    if let Some(fp) = o.fingerprint {
                        a.fps.insert(fp);
                    }
                    if dump_traces.is_some() {
                        a.traces.push((i, o.trace));
                    }
                    // keep: first run, the longest, the one with most fault activity
                    let faults: u64 = o.stats.iter().filter(|(k, _)| k.starts_with("fired.")).map(|(_, v)| *v).sum();
                    if i == 0 {
                        a.samples.push((i, u64::MAX, scn.clone()));
                    } else if o.fingerprint.is_some() {
                        let score = o.sim_time + faults * 50;
                        if a.samples.len() < 3 {
                            a.samples.push((i, score, scn.clone()));
                        } else if let Some(m) = a.samples.iter_mut().skip(1).min_by_key(|x| x.1) {
                            if score > m.1 && (i < 4096) {
                                *m = (i, score, scn.clone());
                            }
                        }
                    }
                    if let Some(v) = o.violation {
                        if let Some(kf) = is_known(&known, id, &v) {
                            let e = a.known_hits.entry(kf.class.clone()).or_insert((0, kf.what.clone()));
                            e.0 += 1;
                        } else {
                            if a.found.len() < 64 {
                                a.found.push(Found { index: i, run_seed, scn, v });
                            }
                            let distinct: HashSet<&str> = a.found.iter().map(|f| f.v.class.as_str()).collect();
                            if distinct.len() >= 4 || a.found.len() >= 24 {
                                stop.store(true, Ordering::Relaxed);
                            }
                        }
                    }
                }
            });
        }
    });

    let mut a = agg.into_inner().unwrap();
    let wall = t0.elapsed().as_secs_f64();

    if let Some(p) = dump_traces {
        a.traces.sort();
        let mut s = String::new();
        for (i, t) in &a.traces {
            s.push_str(&format!("{i} {t:016x}\n"));
        }
        std::fs::write(p, s).expect("write traces");
    }

    // Report violations: one per distinct class (lowest run index), minimised.
    a.found.sort_by_key(|f| f.index);
    let mut reported: Vec<(String, String)> = vec![];
    let mut seen = HashSet::new();
    for f in &a.found {
        if !seen.insert(f.v.class.clone()) {
            continue;
        }
        if seen.len() > 6 {
            break;
        }
        let full = exec_isolated(c, &f.scn);
        let _ = write_replay(c, seed, f, &f.scn, &f.v, full.trace, ".full");
        let (min, execs) = minimise(c, &f.scn, &f.v.class);
        let mo = exec_isolated(c, &min);
        let mv = mo.violation.clone().unwrap_or_else(|| f.v.clone());
        let path = write_replay(c, seed, f, &min, &mv, mo.trace, "");
        println!("violation class={} run={} run_seed={:#x} step={} minimise_execs={} detail={}", mv.class, f.index, f.run_seed, mv.step, execs, mv.detail);
        println!("VIOLATION property={id} replay={path}");
        reported.push((mv.class.clone(), path));
    }
    for (cls, (n, what)) in &a.known_hits {
        println!("KNOWN-FINDING: property={id} class={cls} hits={n} {what}");
    }

    // Blind spots: configured but never fired.
    let mut blind = vec![];
    for (k, v) in &a.stats {
        if let Some(kind) = k.strip_prefix("configured.") {
            let fired = a.stats.iter().find(|(k2, _)| k2.strip_prefix("fired.") == Some(kind)).map(|(_, v)| *v).unwrap_or(0);
            if *v > 0 && fired == 0 {
                blind.push(kind.to_string());
                println!("BLIND-SPOT kind={kind} configured={v} fired=0");
            }
        }
    }

    // Evidence
    let meta = c.meta();
    let samples: Vec<Value> = a.samples.iter().map(|(i, _, s)| json!({"run": i, "scenario": s})).collect();
    let stats_json: serde_json::Map<String, Value> = a.stats.iter().map(|(k, v)| (k.to_string(), json!(v))).collect();
    let ev = json!({
        "property_id": id,
        "tier": tier.name(),
        "seed": seed as i64,
        "level": meta.level,
        "coverage": {
            "evaluations": a.evals,
            "distinct_nontrivial": a.fps.len(),
            "rule": meta.rule,
            "samples": samples,
            "exhaustive": false,
            "enumerated_subspaces": meta.enumerated,
            "seeds": { "verif_seed": seed, "first_run_seed": format!("{:#x}", mix(seed, id, 0)), "runs": a.evals },
            "runs_per_hour": if wall > 0.0 { (a.evals as f64 / wall * 3600.0) as u64 } else { 0 },
            "sim_boundaries": a.sim_time,
            "counters": stats_json,
            "blind_spots": blind,
            "components": { "real": meta.components_real, "stub": meta.components_stub },
            "known_findings_matched": a.known_hits.iter().map(|(k, (n, _))| json!({"class": k, "hits": n})).collect::<Vec<_>>(),
            "violation_replays": reported.iter().map(|(c, p)| json!({"class": c, "replay": p})).collect::<Vec<_>>(),
            "jobs": nj,
        },
        "assumptions": meta.assumptions,
        "wall_s": wall,
        "violations": reported.len(),
    });
    let evdir = format!("{}/evidence", verif_root());
    let _ = std::fs::create_dir_all(&evdir);
    std::fs::write(format!("{evdir}/{id}.json"), serde_json::to_string_pretty(&ev).unwrap()).expect("write evidence");

    println!(
        "done check={id} runs={} distinct_nontrivial={} sim_boundaries={} wall_s={:.1} runs_per_hour={} violations={} known={}",
        a.evals,
        a.fps.len(),
        a.sim_time,
        wall,
        if wall > 0.0 { (a.evals as f64 / wall * 3600.0) as u64 } else { 0 },
        reported.len(),
        a.known_hits.len()
    );
    if !reported.is_empty() {
        return 1;
    }
    if over_budget.load(Ordering::Relaxed) {
        // a loaded machine must not turn into an alarm or a harness error: the batch is simply shorter
        println!("note: quick tier reached its wall cap ({budget}s) after {} of {max_runs} runs; evidence reports the runs actually made", a.evals);
    }
    if a.fps.len() < 2 {
        eprintln!("harness error: fewer than 2 distinct non-trivial runs; generator is broken");
        return 2;
    }
    0
}

#[derive(serde::Deserialize)]
struct ReplayDoc<S> {
    property: String,
    class: String,
    scenario: S,
    #[serde(default)]
    trace_hash: String,
}

pub fn replay<C: Check>(c: &C, path: &str) -> i32 {
    let txt = match std::fs::read_to_string(path) {
        Ok(t) => t,
        Err(e) => {
            eprintln!("harness error: cannot read {path}: {e}");
            return 2;
        }
    };
    let doc: ReplayDoc<C::Scn> = match serde_json::from_str(&txt) {
        Ok(d) => d,
        Err(e) => {
            eprintln!("harness error: cannot parse {path}: {e}");
            return 2;
        }
    };
    if doc.property != c.id() {
        eprintln!("harness error: replay file is for {} not {}", doc.property, c.id());
        return 2;
    }
    if doc.class == "run-does-not-terminate" {
        println!("replay: executing a scenario recorded as non-terminating; VERIF_HANG_S (default 240) bounds the wait");
    }
    let hang_s: f64 = std::env::var("VERIF_HANG_S").ok().and_then(|s| s.parse().ok()).unwrap_or(240.0);
    let o = std::thread::scope(|s| {
        let (tx, rx) = std::sync::mpsc::channel();
        s.spawn(move || {
            let _ = tx.send(exec_isolated(c, &doc.scenario));
        });
        match rx.recv_timeout(std::time::Duration::from_secs_f64(hang_s)) {
            Ok(o) => o,
            Err(_) => {
                println!("replay: violation class=run-does-not-terminate step=0 detail=the run did not come back within {hang_s} s trace_hash=0000000000000000 (recorded class={} trace_hash={})", doc.class, doc.trace_hash);
                println!("VIOLATION property={} replay={path}", c.id());
                use std::io::Write;
                let _ = std::io::stdout().flush();
                std::process::exit(1);
            }
        }
    });
    let th = format!("{:016x}", o.trace);
    match o.violation {
        Some(v) => {
            println!("replay: violation class={} step={} detail={} trace_hash={th} (recorded class={} trace_hash={})", v.class, v.step, v.detail, doc.class, doc.trace_hash);
            let known = load_known();
            if let Some(kf) = is_known(&known, c.id(), &v) {
                println!("KNOWN-FINDING: property={} class={} {}", c.id(), kf.class, kf.what);
                return 0;
            }
            println!("VIOLATION property={} replay={path}", c.id());
            1
        }
        None => {
            println!("replay: scenario passes (recorded class={}) trace_hash={th}", doc.class);
            0
        }
    }
}

/// Determinism self-test for one check: `n` run seeds executed twice, in two
/// thread pools of different sizes; all trace hashes must agree.
pub fn selftest<C: Check>(c: &C, n: u64) -> Result<(), String> {
    let seed = verif_seed();
    let run = |workers: usize| -> Vec<u64> {
        let next = AtomicU64::new(0);
        let out = Mutex::new(vec![0u64; n as usize]);
        std::thread::scope(|s| {
            for _ in 0..workers {
                s.spawn(|| loop {
                    let i = next.fetch_add(1, Ordering::Relaxed);
                    if i >= n {
                        break;
                    }
                    let mut rng = Rng::new(mix(seed, c.id(), i));
                    let scn = c.generate(&mut rng, Tier::Quick, i);
                    let o = exec_isolated(c, &scn);
                    let vh = o.violation.map(|v| crate::rng::fnv(&v.class)).unwrap_or(0);
                    out.lock().unwrap()[i as usize] = o.trace ^ vh;
                });
            }
        });
        out.into_inner().unwrap()
    };
    let a = run(1);
    let b = run(jobs().max(2));
    for i in 0..n as usize {
        if a[i] != b[i] {
            return Err(format!("check {} run {} trace differs between 1-worker and {}-worker pools: {:016x} vs {:016x}", c.id(), i, jobs(), a[i], b[i]));
        }
    }
    // also scenario JSON round-trip must preserve the trace (replay exactness)
    for i in 0..n.min(64) {
        let mut rng = Rng::new(mix(seed, c.id(), i));
        let scn = c.generate(&mut rng, Tier::Quick, i);
        let txt = serde_json::to_string(&scn).unwrap();
        let back: C::Scn = serde_json::from_str(&txt).map_err(|e| format!("scenario JSON round-trip failed: {e}"))?;
        let o = exec_isolated(c, &back);
        let vh = o.violation.map(|v| crate::rng::fnv(&v.class)).unwrap_or(0);
        if (o.trace ^ vh) != a[i as usize] {
            return Err(format!("check {} run {}: scenario re-read from JSON gives a different trace", c.id(), i));
        }
    }
    Ok(())
}

// ---------------------------------------------------------------------------
// Two arms under one property id (e.g. C10 = gate/entry lockstep + transparency pairs).

#[derive(Clone, Serialize, serde::Deserialize)]
pub enum ArmScn<A, B> {
    A(A),
    B(B),
}
pub struct Both<A: Check, B: Check> {
    pub id: &'static str,
    pub a: A,
    pub b: B,
    /// out of 8 runs, how many go to arm A
    pub a_share: u64,
    pub rule: &'static str,
}
impl<A: Check, B: Check> Check for Both<A, B> {
    type Scn = ArmScn<A::Scn, B::Scn>;
    fn id(&self) -> &'static str {
        self.id
    }
    fn meta(&self) -> Meta {
        let (ma, mb) = (self.a.meta(), self.b.meta());
        let _ = mb;
        Meta { rule: self.rule, ..ma }
    }
    fn quick_runs(&self) -> u64 {
        self.a.quick_runs() + self.b.quick_runs()
    }
    fn generate(&self, rng: &mut Rng, tier: Tier, index: u64) -> Self::Scn {
        if index % 8 < self.a_share {
            ArmScn::A(self.a.generate(rng, tier, index))
        } else {
            ArmScn::B(self.b.generate(rng, tier, index))
        }
    }
    fn entropy(&self, scn: &Self::Scn) -> u64 {
        match scn {
            ArmScn::A(s) => self.a.entropy(s),
            ArmScn::B(s) => self.b.entropy(s),
        }
    }
    fn execute(&self, scn: &Self::Scn) -> Outcome {
        match scn {
            ArmScn::A(s) => {
                let mut o = self.a.execute(s);
                o.bump("arm.a");
                o
            }
            ArmScn::B(s) => {
                let mut o = self.b.execute(s);
                o.bump("arm.b");
                if let Some(f) = o.fingerprint.as_mut() {
                    *f ^= 0xB;
                }
                o
            }
        }
    }
    fn shrink(&self, scn: &Self::Scn) -> Vec<Self::Scn> {
        match scn {
            ArmScn::A(s) => self.a.shrink(s).into_iter().map(ArmScn::A).collect(),
            ArmScn::B(s) => self.b.shrink(s).into_iter().map(ArmScn::B).collect(),
        }
    }
}
