//! C33 — keyboard and display deliver bytes exactly once under lock contention.
//!
//! Echo programs that wait for KBSR/DSR readiness (through the OS traps or with
//! hand-rolled polling loops) run against the real BufferedKeyboard/BufferedDisplay
//! behind `Contended<D>`, while the simulated host holds the buffer locks over
//! arbitrary intervals of instruction boundaries (clock-driven holds) or for exactly
//! one device call (the finest interleaving a second thread can achieve).
//! History oracle: bytes received == bytes pushed (once, in order); bytes shown ==
//! bytes emitted; bounded liveness once all locks are released.

use serde::{Deserialize, Serialize};

use crate::env::*;
use crate::mworld::*;
use crate::rng::{Fp, Rng};
use crate::runner::*;

#[derive(Clone, Debug, Serialize, Deserialize, PartialEq)]
pub enum HoldPlan {
    /// one explicit schedule
    Listed {
        kb_calls: Vec<u32>,
        disp_calls: Vec<u32>,
        intervals: Vec<(bool, u32, u32, bool)>,
        /// holder crashes: (keyboard?, boundary) — another thread panics while holding the write
        /// guard at that boundary; the lock is poisoned and free from then on
        #[serde(default)]
        crashes: Vec<(bool, u32)>,
    },
    /// enumerate: every single boundary interval [s,e) for each lock, and every single and
    /// every pair of device-call holds, over the fault-free run's boundaries/calls
    EnumerateAll,
}
#[derive(Clone, Debug, Serialize, Deserialize, PartialEq)]
pub struct C33Scn {
    pub entropy: u64,
    pub real_traps: bool,
    /// 0 = GETC/OUT echo, 1 = hand-rolled polling echo, 2 = GETC then PUTS of a fixed string, 3 = IN echo
    pub program: u8,
    pub keys: Vec<u8>,
    /// (tick, how many of the remaining keys to push)
    pub pushes: Vec<(u32, u8)>,
    pub text: String,
    pub plan: HoldPlan,
    pub hold_write: bool,
    pub bare_twin: bool,
    /// a front end looks at the device registers between instructions without side effects
    /// (`read_mem` with `io_effects: false`): (instructions until the next look, address, track_access)
    #[serde(default)]
    pub peeks: Vec<(u32, u16, bool)>,
}

pub struct C33;

fn program_src(kind: u8, n: usize, text: &str) -> String {
    let mut t = String::from(".orig x3000\n    LEA R2, RBUF\n    LD R1, COUNT\n");
    match kind {
        0 => t.push_str("LOOP GETC\n    STR R0, R2, #0\n    ADD R2, R2, #1\n    OUT\n    ADD R1, R1, #-1\n    BRp LOOP\n"),
        1 => t.push_str(
            "LOOP LDI R0, KBSRP\n    BRzp LOOP\n    LDI R0, KBDRP\n    STR R0, R2, #0\n    ADD R2, R2, #1\nWOUT LDI R3, DSRP\n    BRzp WOUT\n    STI R0, DDRP\n    ADD R1, R1, #-1\n    BRp LOOP\n",
        ),
        2 => t.push_str("LOOP GETC\n    STR R0, R2, #0\n    ADD R2, R2, #1\n    ADD R1, R1, #-1\n    BRp LOOP\n    LEA R0, MSG\n    PUTS\n"),
        _ => t.push_str("LOOP IN\n    STR R0, R2, #0\n    ADD R2, R2, #1\n    ADD R1, R1, #-1\n    BRp LOOP\n"),
    }
    t.push_str("    HALT\n");
    t.push_str(&format!("COUNT .fill {n}\nKBSRP .fill xFE00\nKBDRP .fill xFE02\nDSRP .fill xFE04\nDDRP .fill xFE06\n"));
    t.push_str(&format!("MSG .stringz \"{text}\"\nRBUF .blkw {}\n.end\n", n + 2));
    t
}

struct RunOut {
    received: Vec<u8>,
    shown: Vec<u8>,
    halted: bool,
    ticks: u32,
    kb_calls: u32,
    disp_calls: u32,
    recs: Vec<Rec>,
    queue_left: Vec<u8>,
}

fn mscn(s: &C33Scn, kb_calls: &[u32], disp_calls: &[u32], intervals: &[(bool, u32, u32, bool)], crashes: &[(bool, u32)], bare: bool, max_ticks: u32) -> MScn {
    let mut events: Vec<(u32, HostEv)> = vec![];
    let mut k = 0usize;
    for (t, n) in &s.pushes {
        let m = (*n as usize).min(s.keys.len() - k);
        if m > 0 {
            events.push((*t, HostEv::PushKeys(s.keys[k..k + m].to_vec())));
            k += m;
        }
    }
    if k < s.keys.len() {
        events.push((s.pushes.last().map(|p| p.0 + 1).unwrap_or(0), HostEv::PushKeys(s.keys[k..].to_vec())));
    }
    for (is_kb, st, en, wr) in intervals {
        events.push((*st, if *is_kb { HostEv::HoldKb { write: *wr } } else { HostEv::HoldDisp { write: *wr } }));
        events.push((*en, if *is_kb { HostEv::ReleaseKb } else { HostEv::ReleaseDisp }));
    }
    for (is_kb, t) in crashes {
        events.push((*t, if *is_kb { HostEv::PoisonKb } else { HostEv::PoisonDisp }));
    }
    events.sort_by_key(|e| e.0);
    let io = |calls: &[u32]| if bare { IoSpec::Bare } else { IoSpec::Wrapped { hold_calls: calls.to_vec(), hold_write: s.hold_write } };
    MScn {
        profile: "C33".into(),
        entropy: s.entropy,
        // the hand-rolled polling loop touches the device registers directly, which user code may
        // only do with the privilege checks off
        flags: FlagsS { strict: false, real_traps: s.real_traps, debug_frames: false, ignore_privilege: s.program == 1, init: InitS::Known(0) },
        srcs: vec![SrcSpec { text: program_src(s.program, s.keys.len(), &s.text), debug: true }],
        pokes: vec![],
        regs: vec![],
        pc: 0x3000,
        psr: None,
        kb: io(kb_calls),
        disp: io(disp_calls),
        devs: vec![],
        iregs: vec![],
        events,
        ops: vec![],
        max_ticks,
    }
}

fn run_one(m: &MScn, objs: &[lc3_ensemble::asm::ObjectFile], n: usize, peeks: &[(u32, u16, bool)]) -> Result<RunOut, String> {
    let mut w = match guarded(|| build_with(m, Some(objs)))? {
        Ok(w) => w,
        Err(e) => return Err(format!("unbuildable: {e}")),
    };
    let end = if peeks.is_empty() {
        crate::pairs::run_to_end(&mut w)?
    } else {
        // slices of instructions with a side-effect-free look at a device register after each
        let mut end = crate::pairs::End::Stuck;
        'drive: for round in 0..200_000usize {
            let (gap, addr, track) = peeks[round % peeks.len()];
            match guarded(|| w.sim.run_with_limit(gap.max(1) as u64))? {
                Err(e) => {
                    end = crate::pairs::End::Err(err_kind(&e));
                    break 'drive;
                }
                Ok(()) => {
                    if crate::pairs::program_halted(&w) {
                        end = crate::pairs::End::Halted;
                        break 'drive;
                    }
                    if crate::pairs::ticks_of(&w) >= m.max_ticks {
                        break 'drive;
                    }
                }
            }
            let ctx = lc3_ensemble::sim::MemAccessCtx { privileged: true, strict: false, io_effects: false, track_access: track };
            let _ = guarded(|| w.sim.read_mem(addr, ctx))?;
        }
        end
    };
    w.host.release_all();
    let recs = w.log.take();
    let rbuf = w.objs[0].symbol_table().and_then(|s| s.lookup_label("RBUF")).unwrap_or(0);
    let r2 = w.sim.mem[rbuf.wrapping_sub(0)].get();
    let _ = r2;
    // the program stored each received byte at RBUF+i; how many it stored is R2 - RBUF
    let stored = if end == crate::pairs::End::Halted { n } else { (w.sim.reg_file[reg(2)].get().wrapping_sub(rbuf) as usize).min(n + 2) };
    let received: Vec<u8> = (0..stored).map(|i| w.sim.mem[rbuf.wrapping_add(i as u16)].get() as u8).collect();
    Ok(RunOut {
        received,
        shown: w.host.shown(),
        halted: end == crate::pairs::End::Halted,
        ticks: recs.iter().filter(|r| matches!(r, Rec::Tick { .. })).count() as u32,
        kb_calls: recs.iter().filter(|r| matches!(r, Rec::Read { dev: 1, .. } | Rec::Write { dev: 1, .. } | Rec::Poll { dev: 1, .. })).count() as u32,
        disp_calls: recs.iter().filter(|r| matches!(r, Rec::Read { dev: 2, .. } | Rec::Write { dev: 2, .. } | Rec::Poll { dev: 2, .. })).count() as u32,
        queue_left: w.host.kb_contents(),
        recs,
    })
}

/// Refusal sites in a device log (the known-finding sites).
fn kbdr_refused_after_ready(recs: &[Rec]) -> bool {
    let mut last_ready = false;
    for r in recs {
        // side-effect-free looks of the front end are not part of the program's poll/access sequence
        if matches!(r, Rec::Read { eff: false, .. }) {
            continue;
        }
        match r {
            // the documented race: a *truthful* ready (lock free at the status read) ...
            Rec::Read { dev: 1, addr: 0xFE00, res, held, .. } => last_ready = !*held && res.is_some_and(|v| v & 0x8000 != 0),
            Rec::Read { dev: 1, addr: 0xFE02, eff: true, res: None, held: true } => {
                if last_ready {
                    return true;
                }
            }
            Rec::Read { dev: 1, addr: 0xFE02, .. } => last_ready = false,
            _ => {}
        }
    }
    false
}
fn ddr_refused_after_ready(recs: &[Rec]) -> bool {
    let mut last_ready = false;
    for r in recs {
        if matches!(r, Rec::Read { eff: false, .. }) {
            continue;
        }
        match r {
            Rec::Read { dev: 2, addr: 0xFE04, res, held, .. } => last_ready = !*held && res.is_some_and(|v| v & 0x8000 != 0),
            Rec::Write { dev: 2, addr: 0xFE06, res: false, held: true, .. } => {
                if last_ready {
                    return true;
                }
            }
            Rec::Write { dev: 2, addr: 0xFE06, .. } => last_ready = false,
            _ => {}
        }
    }
    false
}

fn expected_output(s: &C33Scn) -> Vec<u8> {
    match s.program {
        0 | 1 => s.keys.clone(),
        2 => s.text.bytes().collect(),
        _ => {
            let prompt = crate::pairs::os_string("S_IN_PROMPT").unwrap_or_default();
            let mut v = vec![];
            for k in &s.keys {
                v.extend_from_slice(&prompt);
                v.push(*k);
            }
            v
        }
    }
}

/// Classifies one run against the history oracle. Returns (class, detail) for the first broken clause.
fn judge(s: &C33Scn, o: &RunOut, what: &str) -> Option<(String, String)> {
    let exp_out = expected_output(s);
    // input: received must be a prefix of pushed while running, equal at the end
    let n = o.received.len().min(s.keys.len());
    if o.received[..n] != s.keys[..n] || o.received.len() > s.keys.len() {
        let i = (0..n).find(|&i| o.received[i] != s.keys[i]).unwrap_or(n);
        let got = o.received.get(i).copied();
        let class = if kbdr_refused_after_ready(&o.recs) {
            "phantom-input@KBDR-read-refused".to_string()
        } else if got.is_some_and(|g| s.keys[..i].contains(&g)) {
            "duplicate-input".to_string()
        } else if got.is_some_and(|g| s.keys.contains(&g)) {
            "reordered-or-lost-input".to_string()
        } else {
            "phantom-input".to_string()
        };
        return Some((class, format!("{what}: program received {:?}, host pushed {:?} (first difference at #{i})", o.received, s.keys)));
    }
    if !o.halted {
        return Some(("stuck".into(), format!("{what}: program did not finish within the step budget after all locks were released ({} boundaries); received {:?} of {:?}", o.ticks, o.received, s.keys)));
    }
    if o.received != s.keys {
        return Some(("lost-input".into(), format!("{what}: received {:?}, pushed {:?}", o.received, s.keys)));
    }
    if !o.queue_left.is_empty() {
        // the refused KBDR read of the documented race delivers whatever the memory mirror of KBDR
        // holds; after a front end has looked at KBDR that is the byte still at the head of the queue,
        // so the program "receives" it without consuming it: same site, same finding
        let class = if kbdr_refused_after_ready(&o.recs) { "phantom-input@KBDR-read-refused" } else { "input-not-consumed" };
        return Some((class.into(), format!("{what}: {:?} left in the keyboard queue although the program received every byte", o.queue_left)));
    }
    if o.shown != exp_out {
        let class = if ddr_refused_after_ready(&o.recs) {
            "lost-output@DDR-write-refused"
        } else if o.shown.len() > exp_out.len() {
            "duplicate-or-extra-output"
        } else {
            "lost-or-reordered-output"
        };
        return Some((class.into(), format!("{what}: display shows {:?}, program emitted {:?}", o.shown, exp_out)));
    }
    None
}

impl C33 {
    fn run(&self, s: &C33Scn, out: &mut Outcome) -> Vec<Violation> {
        let mut vio: Vec<Violation> = vec![];
        let base = mscn(s, &[], &[], &[], &[], false, 6000);
        let objs: Vec<_> = match base.srcs.iter().map(|x| assemble_src(x).ok()).collect::<Option<Vec<_>>>() {
            Some(o) => o,
            None => {
                out.bump("harness.unbuildable");
                return vio;
            }
        };
        let n = s.keys.len();
        // fault-free baseline: no holds at all — the oracle must be quiet here
        let b = match run_one(&base, &objs, n, &[]) {
            Ok(b) => b,
            Err(e) => {
                vio.push(Violation { class: "panic".into(), step: 0, detail: e });
                return vio;
            }
        };
        out.sim_time += b.ticks as u64;
        if let Some((c, d)) = judge(s, &b, "no lock held at any time") {
            vio.push(Violation { class: format!("fault-free-{c}"), step: 0, detail: d });
            return vio;
        }
        let budget = b.ticks + 64 * (n as u32 + 1) + 400;
        let mut schedules: Vec<(Vec<u32>, Vec<u32>, Vec<(bool, u32, u32, bool)>, Vec<(bool, u32)>)> = vec![];
        match &s.plan {
            HoldPlan::Listed { kb_calls, disp_calls, intervals, crashes } => schedules.push((kb_calls.clone(), disp_calls.clone(), intervals.clone(), crashes.clone())),
            HoldPlan::EnumerateAll => {
                out.bump("probe.enumerated-all-holds");
                for c in 0..b.kb_calls {
                    schedules.push((vec![c], vec![], vec![], vec![]));
                }
                for c in 0..b.disp_calls {
                    schedules.push((vec![], vec![c], vec![], vec![]));
                }
                // pairs of single-call holds (kb,kb), (disp,disp), (kb,disp) when the call counts are small
                if b.kb_calls <= 40 {
                    for a in 0..b.kb_calls {
                        for c in a + 1..b.kb_calls {
                            schedules.push((vec![a, c], vec![], vec![], vec![]));
                        }
                    }
                }
                if b.disp_calls <= 40 {
                    for a in 0..b.disp_calls {
                        for c in a + 1..b.disp_calls {
                            schedules.push((vec![], vec![a, c], vec![], vec![]));
                        }
                    }
                }
                // every boundary interval for each lock
                if b.ticks <= 64 {
                    for st in 0..b.ticks {
                        for en in st + 1..=b.ticks {
                            schedules.push((vec![], vec![], vec![(true, st, en, s.hold_write)], vec![]));
                            schedules.push((vec![], vec![], vec![(false, st, en, s.hold_write)], vec![]));
                        }
                    }
                }
                // a holder crash at every boundary, for each lock
                if b.ticks <= 200 {
                    for t in 0..=b.ticks {
                        schedules.push((vec![], vec![], vec![], vec![(true, t)]));
                        schedules.push((vec![], vec![], vec![], vec![(false, t)]));
                    }
                }
            }
        }
        let mut refusals = 0u64;
        let mut seen_classes: Vec<String> = vec![];
        for (i, (kc, dc, iv, cr)) in schedules.iter().enumerate() {
            let m = mscn(s, kc, dc, iv, cr, false, budget + iv.iter().map(|x| x.2).max().unwrap_or(0));
            if !cr.is_empty() {
                out.bump("fired.lock-poison");
            }
            let o = match run_one(&m, &objs, n, &s.peeks) {
                Ok(o) => o,
                Err(e) => {
                    vio.push(Violation { class: "panic".into(), step: i as u64, detail: e });
                    return vio;
                }
            };
            out.sim_time += o.ticks as u64;
            let refused = o.recs.iter().filter(|r| matches!(r, Rec::Read { res: None, held: true, .. } | Rec::Write { res: false, held: true, .. })).count() as u64;
            refusals += refused;
            if refused > 0 {
                out.bump("fired.lock-hold");
            }
            if kbdr_refused_after_ready(&o.recs) || ddr_refused_after_ready(&o.recs) {
                out.bump("fired.lock-critical");
            }
            let what = format!("kb-call holds {kc:?}, display-call holds {dc:?}, boundary holds {iv:?}, holder crashes {cr:?}");
            if let Some((c, d)) = judge(s, &o, &what) {
                if !seen_classes.contains(&c) {
                    seen_classes.push(c.clone());
                    vio.push(Violation { class: c, step: i as u64, detail: d });
                }
            }
            // bare twin: the direct SimDevice::Keyboard/Display path must behave like the wrapped one
            if s.bare_twin && kc.is_empty() && dc.is_empty() {
                let mb = mscn(s, kc, dc, iv, cr, true, m.max_ticks);
                if let Ok(ob) = run_one(&mb, &objs, n, &s.peeks) {
                    if ob.received != o.received || ob.shown != o.shown || ob.halted != o.halted {
                        vio.push(Violation { class: "bare-vs-wrapped".into(), step: i as u64, detail: format!("{what}: bare devices gave received {:?} shown {:?}, wrapped devices received {:?} shown {:?}", ob.received, ob.shown, o.received, o.shown) });
                        return vio;
                    }
                    out.bump("probe.bare-twin");
                }
            }
        }
        out.add("probe.schedules", schedules.len() as u64);
        let mut fp = Fp::new();
        fp.add(s.program as u64);
        fp.add(n as u64);
        fp.add(schedules.len() as u64);
        fp.add(refusals);
        fp.add(s.real_traps as u64);
        out.trace = fp.0 ^ out.sim_time;
        if refusals > 0 {
            out.fingerprint = Some(fp.0 ^ crate::rng::fnv(&format!("{:?}", s.keys)));
        }
        vio
    }
}

impl Check for C33 {
    type Scn = C33Scn;
    fn id(&self) -> &'static str {
        "C33"
    }
    fn meta(&self) -> Meta {
        Meta {
            rule: "Echo programs (GETC/OUT loop, hand-rolled KBSR/DSR polling loop, GETC then PUTS, IN loop) with 1-12 distinct input bytes pushed in bursts at scheduled boundaries; real BufferedKeyboard/BufferedDisplay behind Contended<D>. Lock schedules: holds of the keyboard or display buffer (read or write guard) over boundary intervals, holds for exactly one device call, side-effect-free looks of a front end at the device registers between instructions (read_mem with io_effects off), and holder crashes (a thread panics while holding the write guard at a boundary: the lock is poisoned and free afterwards). For inputs of <= 2 bytes every single boundary interval for each lock, every single-call hold, every pair of single-call holds and a holder crash at every boundary is enumerated against the fault-free run; longer inputs use random schedules. Oracle per schedule: received == pushed (once, in order), queue drained, shown == emitted, program finishes within the budget after the last release; the fault-free baseline and a bare-device twin must agree. Non-trivial: >=1 device call actually refused because a lock was held.",
            components_real: &["BufferedKeyboard", "BufferedDisplay", "std RwLock try_write (real guards held on the same thread)", "OS GETC/OUT/PUTS/IN routines", "Simulator::run"],
            components_stub: &["Contended<D> wrapper (host decision per device call)", "ClockDev (host decision per boundary)", "entropy source"],
            assumptions: &["a guard held on the simulator's own thread makes try_write return WouldBlock exactly as a guard held by another thread would"],
            level: "exploration",
            enumerated: "for inputs of <= 2 bytes: all single boundary intervals x 2 locks, all single-call holds, all pairs of single-call holds; complete for the program instance only",
        }
    }
    fn quick_runs(&self) -> u64 {
        600
    }
    fn entropy(&self, s: &C33Scn) -> u64 {
        s.entropy
    }
    fn generate(&self, r: &mut Rng, tier: Tier, i: u64) -> C33Scn {
        let short = i % 3 == 0;
        // thorough tier: exhaustive hold patterns for inputs of up to 3 bytes
        let n = if short { 1 + r.below(if tier == Tier::Thorough { 3 } else { 2 }) as usize } else { 3 + r.below(10) as usize };
        let mut keys: Vec<u8> = vec![];
        while keys.len() < n {
            let k = 0x21 + r.below(0x5D) as u8;
            if !keys.contains(&k) {
                keys.push(k);
            }
        }
        let mut pushes = vec![];
        let mut t = r.below(6) as u32;
        let mut left = n;
        while left > 0 {
            let k = 1 + r.below(left.min(3) as u64) as usize;
            pushes.push((t, k as u8));
            left -= k;
            t += r.below(60) as u32;
        }
        let text: String = (0..1 + r.below(6)).map(|_| (0x41 + r.below(26) as u8) as char).collect();
        let plan = if short {
            HoldPlan::EnumerateAll
        } else {
            let mut intervals = vec![];
            for _ in 0..r.below(4) {
                let st = r.below(600) as u32;
                intervals.push((r.bool(), st, st + 1 + r.below(40) as u32, r.bool()));
            }
            HoldPlan::Listed {
                kb_calls: crate::c16::sorted((0..r.below(5)).map(|_| r.below(200) as u32).collect()),
                disp_calls: crate::c16::sorted((0..r.below(5)).map(|_| r.below(200) as u32).collect()),
                intervals,
                crashes: (0..if r.chance(1, 3) { 1 + r.below(2) } else { 0 }).map(|_| (r.bool(), r.below(600) as u32)).collect(),
            }
        };
        C33Scn { entropy: r.next_u64(), real_traps: r.bool(), program: r.below(4) as u8, keys, pushes, text, plan, hold_write: r.bool(), bare_twin: r.chance(1, 3), peeks: if !short && r.chance(1, 3) { (0..1 + r.below(4)).map(|_| (1 + r.below(9) as u32, *r.pick(&[0xFE02u16, 0xFE02, 0xFE00, 0xFE04, 0xFE06]), r.bool())).collect() } else { vec![] } }
    }
    fn execute(&self, s: &C33Scn) -> Outcome {
        let mut out = Outcome::default();
        let mut v = self.run(s, &mut out);
        // one violation per run is reported: unknown classes take precedence over the documented ones
        v.sort_by_key(|x| x.class.contains('@'));
        out.violation = v.into_iter().next();
        out
    }
    fn shrink(&self, s: &C33Scn) -> Vec<C33Scn> {
        let mut c = vec![];
        if s.keys.len() > 1 {
            let mut t = s.clone();
            t.keys.pop();
            c.push(t);
        }
        if let HoldPlan::Listed { kb_calls, disp_calls, intervals, crashes } = &s.plan {
            for i in 0..kb_calls.len() {
                let mut k = kb_calls.clone();
                k.remove(i);
                let mut t = s.clone();
                t.plan = HoldPlan::Listed { kb_calls: k, disp_calls: disp_calls.clone(), intervals: intervals.clone(), crashes: crashes.clone() };
                c.push(t);
            }
            for i in 0..disp_calls.len() {
                let mut k = disp_calls.clone();
                k.remove(i);
                let mut t = s.clone();
                t.plan = HoldPlan::Listed { kb_calls: kb_calls.clone(), disp_calls: k, intervals: intervals.clone(), crashes: crashes.clone() };
                c.push(t);
            }
            for i in 0..intervals.len() {
                let mut k = intervals.clone();
                k.remove(i);
                let mut t = s.clone();
                t.plan = HoldPlan::Listed { kb_calls: kb_calls.clone(), disp_calls: disp_calls.clone(), intervals: k, crashes: crashes.clone() };
                c.push(t);
            }
            for i in 0..crashes.len() {
                let mut k = crashes.clone();
                k.remove(i);
                let mut t = s.clone();
                t.plan = HoldPlan::Listed { kb_calls: kb_calls.clone(), disp_calls: disp_calls.clone(), intervals: intervals.clone(), crashes: k };
                c.push(t);
            }
        }
        if s.real_traps {
            let mut t = s.clone();
            t.real_traps = false;
            c.push(t);
        }
        if s.bare_twin {
            let mut t = s.clone();
            t.bare_twin = false;
            c.push(t);
        }
        if s.pushes.len() > 1 {
            let mut t = s.clone();
            t.pushes = vec![(0, s.keys.len() as u8)];
            c.push(t);
        }
        c
    }
}
