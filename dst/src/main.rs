//! Deterministic-simulation harness for lc3-ensemble. See /verif/DESIGN.md.
#![allow(clippy::too_many_arguments, clippy::type_complexity, clippy::new_without_default)]

mod c13;
mod c16;
mod c33;
mod c34;
mod entropy;
mod misc;
mod tgen;
mod tworld;
mod env;
mod genr;
mod lockstep;
mod mchecks;
mod mgen;
mod model;
mod mworld;
mod pairs;
mod rng;
mod runner;

use runner::{Check, Tier};

fn usage() -> ! {
    eprintln!("usage: dst <ID> quick|thorough [--runs N] [--dump-traces FILE]\n       dst <ID> --replay FILE\n       dst selftest-determinism [N]\n       dst list");
    std::process::exit(2)
}

fn drive<C: Check>(c: &C, args: &[String]) -> i32 {
    if args.first().map(|s| s.as_str()) == Some("--replay") {
        let Some(p) = args.get(1) else { usage() };
        return runner::replay(c, p);
    }
    let tier_pre = args.first().map(|s| s.as_str()) == Some("thorough");
    if tier_pre {
        rng::DEPTH.store(3, std::sync::atomic::Ordering::Relaxed);
    }
    let tier = match args.first().map(|s| s.as_str()) {
        Some("quick") | None => Tier::Quick,
        Some("thorough") => Tier::Thorough,
        _ => usage(),
    };
    let mut runs = None;
    let mut dump = None;
    let mut i = 1;
    while i < args.len() {
        match args[i].as_str() {
            "--runs" => {
                runs = args.get(i + 1).and_then(|s| s.parse().ok());
                i += 2;
            }
            "--dump-traces" => {
                dump = args.get(i + 1).cloned();
                i += 2;
            }
            _ => usage(),
        }
    }
    runner::run_check(c, tier, dump.as_deref(), runs)
}

macro_rules! checks {
    ($mac:ident) => {
        $mac!(
            ("C08", mchecks::C08),
            ("C09", runner::Both { id: "C09", a: runner::Both { id: "C09", a: mchecks::C09, b: pairs::C09S, a_share: 6, rule: "" }, b: pairs::C09R, a_share: 7, rule: "Arm A (6/8 of all runs): non-strict machine in lockstep with RefLc3 — adversarial user-mode blocks aiming LD/ST/LDI/STI (pointer and target)/LDR/STR/JMP/JSRR/BR/fall-through fetch/TRAP pointers/RTI at every boundary address (x0000,x01FF,x0200,x2FFF,x3000,xFDFF,xFE00..xFE06,xFFFC,xFFFE,xFFFF, recording-device ports) and random ones, code placed at x3000.. or ending at xFDFF, real and virtual traps, interrupts alternating the mode, ignore_privilege flipped by the host, control arm with checks off; monitored at every step whose pre-state is user mode with checks on: violation reported exactly when the model says so, no device reached (device log), keyboard queue/PSR/MCR unchanged, observer shows nothing outside user space, memory outside user space unchanged (touched-set + full sweeps); the mode RTI returns to is part of the oracle. Arm B (1/8): the same scenarios on twin machines differing only in flags.strict: a step the non-strict twin refuses is refused identically by the strict twin (a Strict* error may replace it only when raised before the access: StrictMemAddrUninit, StrictPCCurrUninit), the strict twin reaches no device the non-strict twin did not, buffers equal, memory equal after each refused step. Non-trivial: >=1 refused and >=1 permitted access (A), >=1 refused access with both twins in sync (B). Arm C (1/8 of all runs): the same blocks under run() with breakpoints on and around the attacking instructions, resumed after every breakpoint stop, next to a twin driven by step_in: a violation the stepped twin reports must end the run-style history with the same error at the same instruction and the same registers and supervisor/I-O memory." }),
            ("C10", runner::Both { id: "C10", a: mchecks::C10A, b: pairs::C10B, a_share: 7, rule: "Arm A (7/8 of runs): gate/entry invariants in lockstep with RefLc3 — 1-4 competing scripted sources (edge and level), real keyboard interrupts (IE set by the host) and a real seeded timer over soup and structured workloads; every step either enters exactly one interrupt (only if max pending priority > PSR priority, vector from the highest-priority tie set, old PSR/PC pushed on the supervisor stack, R6/saved-SP swap, PSR privilege and priority) or executes exactly one instruction; non-trivial: >=1 interrupt taken. Arm B (1/8): transparency — see its own rule in DESIGN.md §6 C10: exhaustive placements of up to two interrupts over short programs, sampled placements over long ones, final state equals the uninterrupted run." }),
            ("C11", pairs::C11),
            ("C12", pairs::C12),
            ("C13", c13::C13 { observer_arm: false }),
            ("C14", pairs::C14),
            ("C16", c16::C16),
            ("C27", runner::Both { id: "C27", a: mchecks::C27, b: pairs::C27S, a_share: 7, rule: "Arm A (7/8): programs with nested JSR/JSRR/TRAP (including the OS's own nested traps), RET/JMP R7/RTI, unbalanced return and call sequences, interrupts at any depth, the public call_subroutine between steps; debug_frames on (2/3) and off; registered calling-convention and pass-by-register signatures (also re-registered mid-run). After every step frame_stack.len() equals the model's saturating depth and, with frames on, frames() equals the model's list entry-wise (caller, callee, kind, frame pointer, arguments; D8 exceptions). Core-state divergences are not reported here (they are C08's). Non-trivial: depth >= 2 and (a pop at depth 0 or an interrupt frame). Arm B (1/8): the same programs with flags.strict: a JSR/JSRR/JMP/RET/RTI that strict mode refuses entered no call and executed no return — frame depth and frame list length are what they were before the step. Non-trivial: >=1 refused call or return." }),
            ("C28", runner::Both { id: "C28", a: mchecks::C28, b: c13::C13 { observer_arm: true }, a_share: 6, rule: "Arm A (6/8): per-step exactness against RefLc3 (see C28 lockstep rule: read/written/modified sets per step_in, untracked host accesses in between). Arm B (2/8): accumulation — the observer after run/run_with_limit/run_while/step_over/step_out equals the union of the per-step observer sets of a twin simulator driven by step_in over the same boundaries, and is empty after being taken." }),
            ("C15", misc::C15),
            ("C17", tworld::TCheck(tworld::Prop::C17)),
            ("C18", tworld::TCheck(tworld::Prop::C18)),
            ("C19", tworld::TCheck(tworld::Prop::C19)),
            ("C20", tworld::TCheck(tworld::Prop::C20)),
            ("C21", tworld::TCheck(tworld::Prop::C21)),
            ("C22", tworld::TCheck(tworld::Prop::C22)),
            ("C26", tworld::TCheck(tworld::Prop::C26)),
            ("C29", misc::C29),
            ("C30", misc::C30),
            ("C31", pairs::C31),
            ("C32", misc::C32),
            ("C33", c33::C33),
            ("C34", c34::C34)
        );
    };
}

fn main() {
    let args: Vec<String> = std::env::args().skip(1).collect();
    if args.is_empty() {
        usage();
    }
    // Entropy seam must be bound, or nothing replays: refuse to run otherwise.
    entropy::set_thread_entropy(0x05_0B1);
    if let Err(e) = entropy::probe() {
        eprintln!("harness error: entropy interposition probe failed: {e}");
        std::process::exit(2);
    }
    // The library's only process-wide state: force it now, under fixed entropy.
    let _ = lc3_ensemble::sim::_os_obj_file();
    runner::install_panic_hook();

    let id = args[0].as_str();
    let rest = &args[1..];
    let code = match id {
        "list" => {
            macro_rules! pr { ($(($n:literal, $c:expr)),*) => { $( println!("{}", $n); )* } }
            checks!(pr);
            0
        }
        "selftest-determinism" => {
            let n: u64 = rest.first().and_then(|s| s.parse().ok()).unwrap_or(256);
            let mut bad = 0;
            macro_rules! st { ($(($n:literal, $c:expr)),*) => { $(
                match runner::selftest(&$c, n) {
                    Ok(()) => println!("selftest {}: {} seeds x (1 worker, N workers, JSON round-trip) identical", $n, n),
                    Err(e) => { eprintln!("harness error: determinism self-test failed: {e}"); bad += 1; }
                }
            )* } }
            checks!(st);
            if bad > 0 { 2 } else { 0 }
        }
        _ => {
            let mut code = None;
            macro_rules! dr { ($(($n:literal, $c:expr)),*) => { $( if id == $n { code = Some(drive(&$c, rest)); } )* } }
            checks!(dr);
            match code {
                Some(c) => c,
                None => {
                    eprintln!("unknown check id {id}");
                    2
                }
            }
        }
    };
    std::process::exit(code);
}
