//! Paired-execution and contract checks of world M that need no reference model:
//! C10(b) interrupt transparency, C11 OS trap contracts, C12 real vs virtual traps,
//! C14 strict vs non-strict twins, C31 reproducibility under different ambient entropy.

use lc3_ensemble::asm::ObjectFile;
use serde::{Deserialize, Serialize};

use crate::c16::{shrink_mscn, sorted};
use crate::env::*;
use crate::genr::*;
use crate::mgen::*;
use crate::mworld::*;
use crate::rng::{Fp, Rng};
use crate::runner::*;

pub fn os_label(name: &str) -> Option<u16> {
    lc3_ensemble::sim::_os_obj_file().symbol_table().and_then(|s| s.lookup_label(name))
}
pub fn os_string(name: &str) -> Option<Vec<u8>> {
    let a = os_label(name)?;
    let img: std::collections::BTreeMap<u16, Option<u16>> = lc3_ensemble::sim::_os_obj_file().addr_iter().collect();
    let mut v = vec![];
    let mut p = a;
    loop {
        match img.get(&p) {
            Some(Some(0)) | None | Some(None) => break,
            Some(Some(w)) => v.push(*w as u8),
        }
        p = p.wrapping_add(1);
    }
    Some(v)
}

/// The program has stopped for good: virtual HALT (pc rests on a TRAP x25) or the OS
/// halt routine switched the clock off.
pub fn program_halted(w: &World) -> bool {
    if !w.sim.hit_halt() {
        return false;
    }
    if w.sim.flags.use_real_traps {
        // the OS halt routine switches the clock off by storing to MCR: the observer of the run-style
        // call that just returned shows that store (a host-side MCR clear leaves no such mark)
        w.sim.observer.get_mem_accesses(0xFFFE).written()
    } else {
        w.sim.mem[w.sim.pc].get() == 0xF025
    }
}

#[derive(Debug, Clone, PartialEq, Eq)]
pub enum End {
    Halted,
    Err(&'static str),
    /// step cap reached (clock hard stop) without halting
    Stuck,
}

/// Runs until the program halts, errs, or the scenario's tick cap stops it.
pub fn run_to_end(w: &mut World) -> Result<End, String> {
    for _ in 0..4 {
        match guarded(|| w.sim.run())? {
            Err(e) => return Ok(End::Err(err_kind(&e))),
            Ok(()) => {
                if program_halted(w) {
                    return Ok(End::Halted);
                }
                // MCR switched off by the clock's hard stop (or a host event): resume unless capped
                if ticks_of(w) >= w_max_ticks(w) {
                    return Ok(End::Stuck);
                }
            }
        }
    }
    Ok(End::Stuck)
}
/// The same, one `step_in` at a time (every public way of executing instructions goes through the
/// same trap dispatch). MCR is set by the host first, as a run-style call would.
pub fn step_to_end(w: &mut World, max_ticks: u32) -> Result<End, String> {
    w.sim.mcr().store(true, std::sync::atomic::Ordering::Relaxed);
    for _ in 0..400_000u32 {
        match guarded(|| w.sim.step_in())? {
            Err(e) => return Ok(End::Err(err_kind(&e))),
            Ok(()) => {
                if !w.sim.mcr().load(std::sync::atomic::Ordering::Relaxed) {
                    return Ok(if ticks_of(w) >= max_ticks { End::Stuck } else { End::Halted });
                }
                // virtual HALT: reported as Ok by step_in, the machine stands on the TRAP x25
                if !w.sim.flags.use_real_traps && w.sim.mem[w.sim.pc].get() == 0xF025 && (0x3000..0xFE00).contains(&w.sim.pc) {
                    return Ok(End::Halted);
                }
            }
        }
    }
    Ok(End::Stuck)
}
/// The same in slices of `k` instructions (`run_with_limit(k)` until the halt is reported).
pub fn slice_to_end(w: &mut World, k: u64, max_ticks: u32) -> Result<End, String> {
    for _ in 0..400_000u32 {
        match guarded(|| w.sim.run_with_limit(k))? {
            Err(e) => return Ok(End::Err(err_kind(&e))),
            Ok(()) => {
                if program_halted(w) {
                    return Ok(End::Halted);
                }
                if ticks_of(w) >= max_ticks {
                    return Ok(End::Stuck);
                }
            }
        }
    }
    Ok(End::Stuck)
}
pub fn ticks_of(w: &World) -> u32 {
    w.log.0.lock().unwrap_or_else(|e| e.into_inner()).recs.iter().filter(|r| matches!(r, Rec::Tick { .. })).count() as u32
}
fn w_max_ticks(_w: &World) -> u32 {
    0 // any pause that is not a program halt ends the attempt: scenarios of this module schedule no MCR clears
}

fn user_mem_diff(a: &World, b: &World, skip: &[u16]) -> Option<String> {
    for x in 0x3000..0xFE00u16 {
        if skip.contains(&x) {
            continue;
        }
        if a.sim.mem[x] != b.sim.mem[x] {
            return Some(format!("mem[x{x:04X}] = x{:04X} (init {}) vs x{:04X} (init {})", a.sim.mem[x].get(), a.sim.mem[x].is_init(), b.sim.mem[x].get(), b.sim.mem[x].is_init()));
        }
    }
    None
}

fn assemble_all(scn: &MScn) -> Option<Vec<ObjectFile>> {
    scn.srcs.iter().map(|s| assemble_src(s).ok()).collect()
}

// ===========================================================================
// C10(b) — transparency of well-behaved interrupts

#[derive(Clone, Debug, Serialize, Deserialize, PartialEq)]
pub enum Placement {
    /// (device index in base.devs, tick) — raise kind (edge/level) is `level[dev]`
    Raise(Vec<(usize, u32)>),
    Timer,
    Kb(u32),
}
#[derive(Clone, Debug, Serialize, Deserialize, PartialEq)]
pub struct TScn {
    pub base: MScn,
    pub level: Vec<bool>,
    /// None = enumerate every placement of up to 2 interrupts over the program's boundaries
    /// (when the uninterrupted run is short enough), else sample `sample` placements from `pseed`
    pub listed: Option<Vec<Placement>>,
    pub sample: u32,
    /// enumerate all placements when the uninterrupted run has at most this many boundaries
    #[serde(default = "default_enum_limit")]
    pub enum_limit: u32,
    pub pseed: u64,
    pub timer_dev: Option<usize>,
    pub kb_irq: bool,
}

fn default_enum_limit() -> u32 {
    26
}
pub struct C10B;

fn variant(t: &TScn, p: &Placement) -> MScn {
    let mut s = t.base.clone();
    match p {
        Placement::Raise(v) => {
            for (d, tick) in v {
                if let Some(DevSpec::Script(x)) = s.devs.get_mut(*d) {
                    x.raises.push((*tick, t.level.get(*d).copied().unwrap_or(false)));
                    x.raises.sort();
                }
            }
        }
        Placement::Timer => {
            if let Some(i) = t.timer_dev {
                if let Some(DevSpec::Timer(x)) = s.devs.get_mut(i) {
                    x.enabled = true;
                }
            }
        }
        Placement::Kb(tick) => {
            s.events.push((*tick, HostEv::PushKeys(vec![0x41])));
            s.events.sort_by_key(|e| e.0);
        }
    }
    s
}

impl C10B {
    fn run(&self, t: &TScn, out: &mut Outcome) -> Option<Violation> {
        let mut tr = Fp::new();
        let mut fp = Fp::new();
        let objs = match assemble_all(&t.base) {
            Some(o) => o,
            None => {
                out.bump("harness.unbuildable");
                return None;
            }
        };
        // every world of this scenario is built on a fresh thread under the same entropy so that
        // uninitialised garbage is identical in the uninterrupted and the interrupted runs
        let mut w0 = match build_on_with(&t.base, t.base.entropy, objs.clone()) {
            Ok(Ok(w)) => w,
            Ok(Err(_)) => {
                out.bump("harness.unbuildable");
                return None;
            }
            Err(p) => return Some(Violation { class: "panic-in-setup".into(), step: 0, detail: p }),
        };
        if t.kb_irq {
            let _ = w0.sim.write_mem(0xFE00, lc3_ensemble::sim::mem::Word::new_init(0x4000), omni());
        }
        let e0 = match run_to_end(&mut w0) {
            Ok(e) => e,
            Err(p) => return Some(Violation { class: "panic-in-run".into(), step: 0, detail: p }),
        };
        let t0 = ticks_of(&w0);
        out.sim_time += t0 as u64;
        if e0 != End::Halted {
            out.bump("harness.base-not-halting");
            return None;
        }
        // placement space
        let script_devs: Vec<usize> = t.base.devs.iter().enumerate().filter(|(_, d)| matches!(d, DevSpec::Script(_))).map(|(i, _)| i).collect();
        let placements: Vec<Placement> = match &t.listed {
            Some(l) => l.clone(),
            None => {
                let mut v = vec![];
                if t0 <= t.enum_limit && !script_devs.is_empty() {
                    out.bump("probe.enumerated-all-placements");
                    for &d in &script_devs {
                        for k in 0..t0 {
                            v.push(Placement::Raise(vec![(d, k)]));
                        }
                    }
                    let (d1, d2) = (script_devs[0], *script_devs.last().unwrap());
                    for a in 0..t0 {
                        for b in 0..t0 {
                            if d1 != d2 || a < b {
                                v.push(Placement::Raise(vec![(d1, a), (d2, b)]));
                            }
                        }
                    }
                } else if !script_devs.is_empty() {
                    let mut r = Rng::new(t.pseed);
                    for _ in 0..t.sample {
                        let k = 1 + r.below(6) as usize;
                        v.push(Placement::Raise((0..k).map(|_| (*r.pick(&script_devs), r.below(t0 as u64) as u32)).collect()));
                    }
                }
                if t.timer_dev.is_some() {
                    v.push(Placement::Timer);
                }
                if t.kb_irq {
                    let mut r = Rng::new(t.pseed ^ 1);
                    for _ in 0..3 {
                        v.push(Placement::Kb(r.below(t0 as u64) as u32));
                    }
                }
                v
            }
        };
        let mut taken_total = 0u64;
        for (pi, p) in placements.iter().enumerate() {
            let vs = variant(t, p);
            let mut w = match build_on_with(&vs, t.base.entropy, objs.clone()) {
                Ok(Ok(w)) => w,
                _ => continue,
            };
            if t.kb_irq {
                let _ = w.sim.write_mem(0xFE00, lc3_ensemble::sim::mem::Word::new_init(0x4000), omni());
            }
            let e = match run_to_end(&mut w) {
                Ok(e) => e,
                Err(pm) => return Some(Violation { class: "panic-in-run".into(), step: pi as u64, detail: format!("{p:?}: {pm}") }),
            };
            let recs = w.log.take();
            let tk = recs.iter().filter(|r| matches!(r, Rec::Tick { .. })).count() as u64;
            out.sim_time += tk;
            // interrupts actually taken = acknowledge writes by handlers (+ timer/kb entries seen as extra boundaries)
            let acks = recs.iter().filter(|r| matches!(r, Rec::Write { res: true, .. })).count() as u64;
            let extra = tk.saturating_sub(t0 as u64);
            if acks > 0 || extra > 0 {
                taken_total += 1;
                out.bump("fired.irq-raise");
            }
            tr.add(tk);
            tr.add(w.sim.pc as u64);
            let fail = |class: &str, d: String| Some(Violation { class: class.to_string(), step: pi as u64, detail: format!("placement {p:?} over {t0} boundaries: {d}") });
            if e != End::Halted {
                return fail("transparency-end", format!("interrupted run ended with {e:?}, uninterrupted run halted"));
            }
            for k in 0..8 {
                if w.sim.reg_file[reg(k)] != w0.sim.reg_file[reg(k)] {
                    return fail("transparency-reg", format!("R{k} = x{:04X}, uninterrupted x{:04X}", w.sim.reg_file[reg(k)].get(), w0.sim.reg_file[reg(k)].get()));
                }
            }
            if w.sim.psr().get() != w0.sim.psr().get() {
                return fail("transparency-psr", format!("psr x{:04X}, uninterrupted x{:04X}", w.sim.psr().get(), w0.sim.psr().get()));
            }
            if let Some(d) = user_mem_diff(&w, &w0, &[]) {
                return fail("transparency-mem", d);
            }
            if w.host.shown() != w0.host.shown() {
                return fail("transparency-output", format!("display {:?}, uninterrupted {:?}", w.host.shown(), w0.host.shown()));
            }
            // bounded liveness: a level request raised well before the end has been served
            if let Placement::Raise(v) = p {
                for (d, tick) in v {
                    let prio = match &vs.devs[*d] {
                        DevSpec::Script(x) => x.prio,
                        _ => 0,
                    };
                    if t.level[*d] && prio > 0 && (*tick as u64) + 120 < tk {
                        let ix = 4 + *d as u16;
                        let served = recs.iter().any(|r| matches!(r, Rec::Write { dev, res: true, .. } if *dev == ix));
                        if !served {
                            return fail("irq-not-served", format!("level request of device {d} (priority {prio}) raised at boundary {tick} was never served in {tk} boundaries"));
                        }
                        out.bump("probe.level-served");
                    }
                }
            }
            w.host.release_all();
        }
        fp.add(t0 as u64);
        fp.add(placements.len() as u64);
        fp.add(taken_total);
        out.add("probe.placements", placements.len() as u64);
        out.trace = tr.0;
        if taken_total >= 1 {
            out.fingerprint = Some(fp.0 ^ crate::rng::fnv(&t.base.srcs[0].text));
        }
        None
    }
}

impl Check for C10B {
    type Scn = TScn;
    fn id(&self) -> &'static str {
        "C10b"
    }
    fn meta(&self) -> Meta {
        Meta {
            rule: "Transparency arm: terminating user program P (registers, CC-dependent branches, stack, user memory, OUT/PUTS output through OS traps) run once uninterrupted -> S0; then under placements of interrupts from 1-3 scripted sources with distinct priorities (edge or level-until-acknowledged) with well-behaved handlers (save/restore on R6, MMIO acknowledge, RTI), a seeded timer, and keyboard interrupts. For P with <= 26 boundaries every placement of one interrupt per source and every pair over all boundaries (incl. boundaries inside OS routines) is enumerated; longer P: sampled placements of 1-6 raises. Final R0-R7, PSR, user memory x3000-xFDFF and display must equal S0; level requests are served within 120 boundaries. Non-trivial: >=1 interrupt actually taken.",
            components_real: &["Simulator::run", "interrupt entry / RTI", "DeviceHandler poll+arbitration", "TimerDevice", "BufferedKeyboard interrupts", "OS traps", "assembler"],
            components_stub: &["ScriptDev sources with handler templates", "ClockDev", "entropy source"],
            assumptions: &["handlers come from the save/restore template; a handler that clobbers state is outside the property"],
            level: "exploration",
            enumerated: "for programs with <= 26 boundaries: all single placements per source and all pairs (first x last source) over all boundaries; complete only for the program instance the seed picked",
        }
    }
    fn quick_runs(&self) -> u64 {
        700
    }
    fn entropy(&self, s: &TScn) -> u64 {
        s.base.entropy
    }
    fn generate(&self, r: &mut Rng, tier: Tier, _i: u64) -> TScn {
        let short = r.chance(1, 2);
        let flags = FlagsS { strict: false, real_traps: r.bool(), debug_frames: false, ignore_privilege: false, init: if short { InitS::Known(0) } else { gen_init(r) } };
        let mut o = ProgOpts::basic(if short { r.below(3) as usize } else { 4 + r.below(20) as usize });
        o.kb = false;
        o.out = !short || r.chance(1, 3);
        o.calls = !short;
        o.loops = !short;
        o.init_regs = !short;
        let p = gen_program(r, &o);
        let mut base = MScn { profile: "C10b".into(), entropy: r.next_u64(), flags, srcs: vec![SrcSpec { text: p.text, debug: false }], pokes: vec![], regs: vec![], pc: 0x3000, psr: None, kb: IoSpec::Absent, disp: IoSpec::Bare, devs: vec![], iregs: vec![], events: vec![], ops: vec![], max_ticks: 6000 };
        let n = 1 + r.below(3) as usize;
        add_irq_sources(r, &mut base, n, 1, false);
        let mut level = vec![];
        let mut prios: Vec<u8> = vec![];
        for d in base.devs.iter_mut() {
            if let DevSpec::Script(x) = d {
                x.raises.clear();
                x.externals.clear();
                x.write_refuse.clear();
                // distinct non-zero priorities so that some nest and some wait
                let mut p = 1 + r.below(7) as u8;
                while prios.contains(&p) {
                    p = 1 + (p % 7);
                }
                prios.push(p);
                x.prio = p;
                level.push(r.bool());
            }
        }
        // every source needs a handler (transparency presupposes one)
        for (i, d) in base.devs.clone().iter().enumerate() {
            if let DevSpec::Script(x) = d {
                if !base.pokes.iter().any(|(a, _)| *a == 0x100 + x.vect as u16) {
                    let haddr = 0x1800 + 0x40 * i as u16;
                    base.srcs.push(SrcSpec { text: gen_handler(r, haddr, Some(x.ports[0]), false, 1), debug: false });
                    base.pokes.push((0x100 + x.vect as u16, vec![haddr]));
                }
            }
        }
        let mut timer_dev = None;
        if r.chance(1, 3) {
            add_timer(r, &mut base);
            let i = base.devs.len() - 1;
            if let DevSpec::Timer(x) = &mut base.devs[i] {
                x.enabled = false;
                // the interval must exceed the handler's length or the program makes no progress
                // (an interrupt storm is legitimate behaviour, not a transparency failure)
                x.lo += 60;
                x.hi += 60;
            }
            level.push(false);
            timer_dev = Some(i);
        }
        let kb_irq = r.chance(1, 4);
        if kb_irq {
            base.kb = IoSpec::Bare;
            let haddr = 0x0F00;
            base.srcs.push(SrcSpec { text: gen_handler(r, haddr, None, true, 0), debug: false });
            base.pokes.push((0x180, vec![haddr]));
        }
        TScn { base, level, listed: None, sample: if tier == Tier::Thorough { 160 } else { 40 }, enum_limit: if tier == Tier::Thorough { 40 } else { 26 }, pseed: r.next_u64(), timer_dev, kb_irq }
    }
    fn execute(&self, s: &TScn) -> Outcome {
        let mut out = Outcome::default();
        let v = self.run(s, &mut out);
        out.violation = v;
        out
    }
    fn shrink(&self, s: &TScn) -> Vec<TScn> {
        let mut c = vec![];
        if s.timer_dev.is_some() && s.timer_dev == Some(s.base.devs.len() - 1) {
            let mut t = s.clone();
            t.base.devs.pop();
            t.level.pop();
            t.timer_dev = None;
            c.push(t);
        }
        if s.kb_irq {
            let mut t = s.clone();
            t.kb_irq = false;
            c.push(t);
        }
        if s.sample > 1 && s.listed.is_none() {
            let mut t = s.clone();
            t.sample /= 2;
            c.push(t);
        }
        // shrink the program text line by line (replace body lines by nothing, from the end)
        let lines: Vec<&str> = s.base.srcs[0].text.lines().collect();
        for i in (1..lines.len().saturating_sub(1)).rev() {
            let l = lines[i].trim();
            if l.starts_with('.') || l.is_empty() || !lines[i].starts_with(' ') {
                continue;
            }
            let mut t = s.clone();
            let mut nl = lines.clone();
            nl.remove(i);
            t.base.srcs[0].text = nl.join("\n") + "\n";
            c.push(t);
        }
        c
    }
}

// ===========================================================================
// C11 — OS trap contracts

#[derive(Clone, Debug, Serialize, Deserialize, PartialEq)]
pub struct C11Scn {
    pub m: MScn,
    pub trap: u8,
    pub regs: [u16; 8],
    /// value giving the pre-trap condition codes (loaded into a scratch register last)
    pub ccv: u16,
    pub str_addr: u16,
    pub words: Vec<u16>,
    pub keys: Vec<u8>,
    pub key_tick: u32,
}
pub struct C11;

fn c11_source(s: &C11Scn, alias: bool) -> String {
    let name = match (s.trap, alias) {
        (0x20, true) => "GETC".to_string(),
        (0x21, true) => "OUT".to_string(),
        (0x22, true) => "PUTS".to_string(),
        (0x23, true) => "IN".to_string(),
        (0x24, true) => "PUTSP".to_string(),
        (0x25, true) => "HALT".to_string(),
        (v, _) => format!("TRAP x{v:02X}"),
    };
    let mut t = String::from(".orig x3000\n");
    for k in 1..8 {
        t.push_str(&format!("    LD R{k}, V{k}\n"));
    }
    // the last load sets the pre-trap condition codes from R0's value
    t.push_str("    LD R0, V0\n");
    t.push_str(&format!("    {name}\n"));
    for k in 0..8 {
        t.push_str(&format!("    ST R{k}, S{k}\n"));
    }
    t.push_str("    BRn ISN\n    BRz ISZ\n    LD R0, K1\n    BR FIN\nISN LD R0, K4\n    BR FIN\nISZ LD R0, K2\nFIN ST R0, SCC\n    HALT\n");
    for k in 0..8 {
        t.push_str(&format!("V{k} .fill x{:04X}\n", s.regs[k]));
    }
    t.push_str(&format!("VCC .fill x{:04X}\nSCRATCH .blkw 1\n", s.ccv));
    for k in 0..8 {
        t.push_str(&format!("S{k} .blkw 1\n"));
    }
    t.push_str("SCC .blkw 1\nK1 .fill 1\nK2 .fill 2\nK4 .fill 4\n.end\n");
    if !s.words.is_empty() {
        t.push_str(&format!(".orig x{:04X}\n", s.str_addr));
        for w in &s.words {
            t.push_str(&format!("    .fill x{w:04X}\n"));
        }
        t.push_str(".end\n");
    }
    t
}

fn cc_of(v: u16) -> u16 {
    if v == 0 {
        2
    } else if v & 0x8000 != 0 {
        4
    } else {
        1
    }
}

impl C11 {
    fn run(&self, s: &C11Scn, out: &mut Outcome) -> Option<Violation> {
        let mut w = match guarded(|| build(&s.m)) {
            Ok(Ok(w)) => w,
            Ok(Err(_)) => {
                out.bump("harness.unbuildable");
                return None;
            }
            Err(p) => return Some(Violation { class: "panic-in-setup".into(), step: 0, detail: p }),
        };
        let sym = w.objs[0].symbol_table().cloned();
        let lab = |n: &str| sym.as_ref().and_then(|t| t.lookup_label(n)).unwrap_or(0);
        let snap: Vec<lc3_ensemble::sim::mem::Word> = (0x3000..0xFE00u16).map(|a| w.sim.mem[a]).collect();
        let fail = |c: &str, d: String| Some(Violation { class: c.to_string(), step: 0, detail: format!("TRAP x{:02X} R0=x{:04X}: {d}", s.trap, s.regs[0]) });
        // the program is driven by run(), or in run_with_limit(k) slices until the halt is reported
        let slice: Option<u64> = s.m.profile.strip_prefix("C11-slice-").and_then(|k| k.parse().ok());
        if slice.is_some() {
            out.bump("probe.sliced-drive");
        }
        let e = match if let Some(k) = slice { slice_to_end(&mut w, k, s.m.max_ticks) } else { run_to_end(&mut w) } {
            Ok(e) => e,
            Err(p) => return fail("panic-in-run", p),
        };
        let recs = w.log.take();
        let tk = recs.iter().filter(|r| matches!(r, Rec::Tick { .. })).count() as u64;
        out.sim_time = tk;
        let shown = w.host.shown();
        let kbq = w.host.kb_contents();
        // expected output and input consumption by contract
        let key = s.keys.first().copied();
        let mut exp_out: Vec<u8> = vec![];
        let mut consumed = 0usize;
        match s.trap {
            0x20 => consumed = 1,
            0x21 => exp_out.push(s.regs[0] as u8),
            0x22 => {
                for wd in &s.words {
                    if *wd == 0 {
                        break;
                    }
                    exp_out.push(*wd as u8);
                }
            }
            0x23 => {
                consumed = 1;
                if let Some(p) = os_string("S_IN_PROMPT") {
                    exp_out.extend(p);
                }
                exp_out.push(key.unwrap_or(0));
            }
            0x24 => {
                'o: for wd in &s.words {
                    for b in [*wd as u8, (*wd >> 8) as u8] {
                        if b == 0 {
                            break 'o;
                        }
                        exp_out.push(b);
                    }
                }
            }
            _ => {}
        }
        if e != End::Halted {
            return fail("trap-liveness", format!("program did not reach HALT within {} boundaries (ended {e:?}; key arrives at boundary {})", s.m.max_ticks, s.key_tick));
        }
        if !w.sim.hit_halt() {
            return fail("halt-contract", "HALT did not stop the machine (hit_halt() false)".into());
        }
        if shown != exp_out {
            if s.trap == 0x23 && os_string("S_IN_PROMPT").is_none() && shown.last() == key.as_ref() && shown.len() > 1 {
                // prompt text unknown: any non-empty prompt followed by the echo is accepted
            } else {
                return fail("trap-output", format!("display shows {shown:?}, contract says {exp_out:?}"));
            }
        }
        let exp_q: Vec<u8> = s.keys[consumed.min(s.keys.len())..].to_vec();
        if kbq != exp_q {
            return fail("trap-input-consumption", format!("keyboard queue after the trap {kbq:?}, contract says {exp_q:?} (keys pushed {:?})", s.keys));
        }
        // (under real traps the program's final HALT leaves the machine inside the OS halt routine: one open frame)
        let open = if s.m.flags.real_traps { 1 } else { 0 };
        if w.sim.frame_stack.len() != open {
            return fail("trap-frame-depth", format!("frame depth {} at the end, expected {open}: the trap did not balance its frames", w.sim.frame_stack.len()));
        }
        if s.trap == 0x25 {
            // the machine stopped at the trap itself; under virtual traps nothing may have changed
            if !s.m.flags.real_traps {
                for k in 1..8 {
                    if w.sim.reg_file[reg(k)].get() != s.regs[k as usize] {
                        return fail("trap-register", format!("R{k} = x{:04X} after virtual HALT, was x{:04X}", w.sim.reg_file[reg(k)].get(), s.regs[k as usize]));
                    }
                }
            }
            out.fingerprint = Some(0x25 ^ (s.m.flags.real_traps as u64) << 8);
            return None;
        }
        // registers saved by the program right after the trap returned
        let saved: Vec<u16> = (0..8).map(|k| w.sim.mem[lab(&format!("S{k}"))].get()).collect();
        for k in 0..8usize {
            let expect = if k == 0 && matches!(s.trap, 0x20 | 0x23) { key.unwrap_or(0) as u16 } else { s.regs[k] };
            if saved[k] != expect {
                return fail("trap-register", format!("R{k} = x{:04X} after return, contract says x{expect:04X}", saved[k]));
            }
        }
        // condition codes as the program observed them after return (pre-trap CC came from `LD R0, V0`)
        let scc = w.sim.mem[lab("SCC")].get();
        if scc != cc_of(s.regs[0]) {
            return fail("trap-cc", format!("condition codes after return x{scc:X}, before the trap x{:X}", cc_of(s.regs[0])));
        }
        // PSR the program ran with after the trap returned: the live PSR under virtual traps; under
        // real traps the machine now sits in the OS halt routine and that PSR is the word the final
        // HALT pushed on the supervisor stack (R6+1)
        let psr_after = if s.m.flags.real_traps { w.sim.mem[w.sim.reg_file[reg(6)].get().wrapping_add(1)].get() } else { w.sim.psr().get() };
        if psr_after & 0x8000 == 0 {
            return fail("trap-privilege", format!("machine was in supervisor mode after the trap returned (psr x{psr_after:04X})"));
        }
        let want_prio = s.m.psr.map(|p| (p >> 8) & 7).unwrap_or(0);
        if (psr_after >> 8) & 7 != want_prio {
            return fail("trap-priority", format!("priority {} after return, the caller ran at {want_prio}", (psr_after >> 8) & 7));
        }
        // user memory unchanged except the program's own save area
        let mut skip: Vec<u16> = (0..8).map(|k| lab(&format!("S{k}"))).collect();
        skip.push(lab("SCC"));
        skip.push(lab("SCRATCH"));
        for (i, a) in (0x3000..0xFE00u16).enumerate() {
            if !skip.contains(&a) && w.sim.mem[a] != snap[i] {
                return fail("trap-user-memory", format!("mem[x{a:04X}] changed from x{:04X} to x{:04X}", snap[i].get(), w.sim.mem[a].get()));
            }
        }
        let irqs = recs.iter().filter(|r| matches!(r, Rec::Write { res: true, dev, .. } if *dev >= 4)).count() as u64;
        if irqs > 0 {
            out.bump("fired.irq-in-trap");
        }
        let late = recs.iter().any(|r| matches!(r, Rec::Host { tick, ev: HostEv::PushKeys(_) } if *tick > 12));
        if late && consumed > 0 {
            out.bump("fired.key-late");
        }
        let mut fp = Fp::new();
        fp.add(s.trap as u64);
        fp.add(s.words.len() as u64);
        fp.add((s.key_tick / 8) as u64);
        fp.add(irqs);
        fp.add(s.m.flags.real_traps as u64);
        fp.add(cc_of(s.regs[0]) as u64);
        out.fingerprint = Some(fp.0);
        out.trace = fp.0 ^ tk;
        None
    }
}

impl Check for C11 {
    type Scn = C11Scn;
    fn id(&self) -> &'static str {
        "C11"
    }
    fn meta(&self) -> Meta {
        Meta {
            rule: "User program loads R1-R7 and R0 with random values (CC follows R0), invokes one trap (alias or TRAP xNN) and stores every register and the observed CC to memory, then HALTs. Strings: random words (bytes x01-xFF, high bytes set for PUTS, odd/even packed lengths for PUTSP, empty strings) at addresses up to xFDFF; keyboard bytes arrive at a scheduled later boundary (GETC/IN must wait); 0-2 well-behaved interrupts land inside the routine; real and virtual traps. Oracle = executable contract per trap over (R0, memory, key queue): output bytes, exactly-one input consumption, registers (except R0 for GETC/IN), CC, privilege, priority, frame depth, user memory, HALT stops; bounded liveness (program ends within the step budget derived from the output length once the key is queued). Non-trivial: the trap returned or halted; distinct by (trap, string length, key offset class, interrupts inside, trap mode, CC).",
            components_real: &["built-in OS trap routines", "TRAP/RTI", "BufferedKeyboard/BufferedDisplay", "interrupt entry", "assembler"],
            components_stub: &["ClockDev key arrivals", "ScriptDev interrupt sources", "entropy source"],
            assumptions: &["IN's prompt text is read from the OS image's S_IN_PROMPT label; if the label disappears any non-empty prompt is accepted"],
            level: "exploration",
            enumerated: "none",
        }
    }
    fn quick_runs(&self) -> u64 {
        30_000
    }
    fn entropy(&self, s: &C11Scn) -> u64 {
        s.m.entropy
    }
    fn generate(&self, r: &mut Rng, _t: Tier, _i: u64) -> C11Scn {
        let trap = *r.pick(&[0x20u8, 0x21, 0x22, 0x22, 0x23, 0x24, 0x24, 0x25]);
        let mut regs = [0u16; 8];
        for x in regs.iter_mut() {
            *x = if r.chance(1, 4) { *r.pick(&[0u16, 1, 0x7FFF, 0x8000, 0xFFFF]) } else { r.u16() };
        }
        let mut words = vec![];
        let mut str_addr = 0x4000;
        if matches!(trap, 0x22 | 0x24) {
            let n = *r.pick(&[0usize, 0, 1, 2, 3, 5, 8, 13, 20, 40]);
            for _ in 0..n {
                let lo = 1 + r.below(255) as u16;
                let hi = if trap == 0x24 { 1 + r.below(255) as u16 } else if r.chance(1, 3) { r.below(256) as u16 } else { 0 };
                words.push(hi << 8 | lo);
            }
            if trap == 0x24 && r.bool() {
                // odd length: terminating zero byte in the high half, possibly followed by garbage word
                let lo = 1 + r.below(255) as u16;
                words.push(lo);
                if r.bool() {
                    words.push(r.u16() | 0x0101);
                }
            } else if trap == 0x24 && r.chance(1, 2) {
                // even length whose terminating zero byte has a non-zero high half
                words.push((1 + r.below(255) as u16) << 8);
                if r.bool() {
                    words.push(r.u16() | 0x0101);
                }
            }
            words.push(0);
            str_addr = if r.chance(1, 4) { 0xFE00 - words.len() as u16 } else { 0x4000 + r.below(0xB000) as u16 };
            regs[0] = str_addr;
        }
        let needs_key = matches!(trap, 0x20 | 0x23);
        let keys: Vec<u8> = if needs_key { (0..1 + r.below(3)).map(|_| 1 + r.below(255) as u8).collect() } else if r.chance(1, 4) { vec![r.u8()] } else { vec![] };
        let key_tick = if needs_key { *r.pick(&[0u32, 0, 5, 11, 12, 13, 14, 15, 20, 40, 90]) } else { 0 };
        let out_len = match trap {
            0x22 | 0x24 => words.len() as u32 * 2,
            0x23 => 20,
            _ => 1,
        };
        let flags = FlagsS { strict: false, real_traps: r.bool(), debug_frames: r.chance(1, 4), ignore_privilege: r.chance(1, 4), init: gen_init(r) };
        let mut m = MScn { profile: "C11".into(), entropy: r.next_u64(), flags, srcs: vec![], pokes: vec![], regs: vec![], pc: 0x3000, psr: None, kb: IoSpec::Bare, disp: IoSpec::Bare, devs: vec![], iregs: vec![], events: vec![], ops: vec![], max_ticks: 0 };
        if !keys.is_empty() {
            m.events.push((key_tick, HostEv::PushKeys(keys.clone())));
        }
        // type-ahead that the host withdraws again before the program gets to its trap (the prelude
        // takes 9 instructions): it must not be seen by GETC/IN, which wait for the real key
        if key_tick >= 11 && r.chance(1, 3) {
            m.events.push((0, HostEv::PushKeys(vec![1 + r.below(255) as u8, 1 + r.below(255) as u8])));
            m.events.push((1 + r.below(5) as u32, HostEv::ClearKeys));
            m.events.sort_by_key(|e| e.0);
        }
        let nirq = if r.chance(1, 2) { 0 } else { 1 + r.below(2) as usize };
        let window = 20 + key_tick + out_len * 20;
        add_irq_sources(r, &mut m, nirq, window, true);
        for d in m.devs.iter_mut() {
            if let DevSpec::Script(x) = d {
                x.externals.clear();
                x.write_refuse.clear();
            }
        }
        // sources without a handler fall into the OS's default handler, which prints: keep output exact
        let devs = m.devs.clone();
        for (i, d) in devs.iter().enumerate() {
            if let DevSpec::Script(x) = d {
                if !m.pokes.iter().any(|(a, _)| *a == 0x100 + x.vect as u16) {
                    let haddr = 0x1800 + 0x40 * i as u16;
                    m.srcs.push(SrcSpec { text: gen_handler(r, haddr, Some(x.ports[0]), false, 1), debug: false });
                    m.pokes.push((0x100 + x.vect as u16, vec![haddr]));
                }
            }
        }
        // the caller's priority level is part of the machine state a trap routine runs under: a request
        // at or below it stays masked for the whole routine. A third of the runs raise the caller to
        // level P and keep such a request pending; its handler (which must never run) marks a user cell.
        if r.chance(1, 3) {
            let p = 1 + r.below(7) as u16;
            m.psr = Some(0x8000 | (p << 8) | 0x2);
            for d in m.devs.iter_mut() {
                if let DevSpec::Script(x) = d {
                    // sources that are meant to be taken must outrank the caller
                    x.prio = x.prio.max(p as u8 + 1);
                }
            }
            let mut vect = 0x40 + r.below(0x40) as u8;
            while m.devs.iter().any(|d| matches!(d, DevSpec::Script(x) if x.vect == vect)) {
                vect = 0x40 + (vect.wrapping_add(1) & 0x3F);
            }
            let haddr = 0x1F00;
            let port = 0xFE70;
            m.devs.push(DevSpec::Script(ScriptSpec { ports: vec![port], vect, prio: r.below(p as u64 + 1) as u8, raises: vec![(r.below(30) as u32, true)], externals: vec![], read_refuse: vec![], write_refuse: vec![], read_base: 0, mcr_clear: vec![], wrap: 0 }));
            m.srcs.push(SrcSpec { text: format!(".orig x{haddr:04X}\n    ST R0, SAVE\n    LD R0, VAL\n    STI R0, CELL\n    STI R0, ACK\n    LD R0, SAVE\n    RTI\nSAVE .blkw 1\nVAL .fill xBEEF\nCELL .fill xA5A5\nACK .fill x{port:04X}\n.end\n"), debug: false });
            m.pokes.push((0x100 + vect as u16, vec![haddr]));
        }
        m.max_ticks = key_tick + 400 + 160 * out_len + 200 * nirq as u32;
        if r.chance(1, 4) {
            m.profile = format!("C11-slice-{}", *r.pick(&[1u64, 1, 2, 3, 7, 20]));
        }
        let mut s = C11Scn { m, trap, regs, ccv: r.u16(), str_addr, words, keys, key_tick };
        let text = c11_source(&s, r.bool());
        s.m.srcs.insert(0, SrcSpec { text, debug: true });
        s
    }
    fn execute(&self, s: &C11Scn) -> Outcome {
        let mut out = Outcome::default();
        let v = self.run(s, &mut out);
        out.violation = v;
        out
    }
    fn shrink(&self, s: &C11Scn) -> Vec<C11Scn> {
        let mut c = vec![];
        if !s.m.devs.is_empty() {
            let mut t = s.clone();
            t.m.devs.pop();
            c.push(t);
        }
        if s.key_tick > 0 {
            let mut t = s.clone();
            t.key_tick = 0;
            for e in t.m.events.iter_mut() {
                e.0 = 0;
            }
            c.push(t);
        }
        if s.words.len() > 2 {
            let mut t = s.clone();
            t.words.remove(0);
            let alias = t.m.srcs[0].text.contains("TRAP x") == false;
            t.m.srcs[0].text = c11_source(&t, alias);
            c.push(t);
        }
        for (cond, g) in [(s.m.flags.real_traps, FlagsS { real_traps: false, ..s.m.flags }), (s.m.flags.debug_frames, FlagsS { debug_frames: false, ..s.m.flags }), (s.m.flags.init != InitS::Known(0), FlagsS { init: InitS::Known(0), ..s.m.flags })] {
            if cond {
                let mut t = s.clone();
                t.m.flags = g;
                c.push(t);
            }
        }
        c
    }
}

// ===========================================================================
// C12 — real and virtual traps agree except at HALT and exceptions

pub struct C12;
impl C12 {
    fn run(&self, scn: &MScn, out: &mut Outcome) -> Option<Violation> {
        let objs = match assemble_all(scn) {
            Some(o) => o,
            None => {
                out.bump("harness.unbuildable");
                return None;
            }
        };
        let mk = |real: bool| {
            let mut s = scn.clone();
            s.flags.real_traps = real;
            let o = objs.clone();
            build_on_with(&s, scn.entropy, o)
        };
        let (mut v, mut r) = match (mk(false), mk(true)) {
            (Ok(Ok(a)), Ok(Ok(b))) => (a, b),
            (Err(p), _) | (_, Err(p)) => return Some(Violation { class: "panic-in-setup".into(), step: 0, detail: p }),
            _ => {
                out.bump("harness.unbuildable");
                return None;
            }
        };
        let fail = |c: &str, d: String| Some(Violation { class: c.to_string(), step: 0, detail: d });
        let ev = match run_to_end(&mut v) {
            Ok(e) => e,
            Err(p) => return fail("panic-in-run", p),
        };
        let stepped = scn.profile == "C12-step";
        let slice: Option<u64> = scn.profile.strip_prefix("C12-slice-").and_then(|k| k.parse().ok());
        if slice.is_some() {
            out.bump("probe.real-twin-sliced");
        }
        let er = match if stepped {
            step_to_end(&mut r, scn.max_ticks)
        } else if let Some(k) = slice {
            slice_to_end(&mut r, k, scn.max_ticks)
        } else {
            run_to_end(&mut r)
        } {
            Ok(e) => e,
            Err(p) => return fail("panic-in-run", p),
        };
        if stepped {
            out.bump("probe.real-twin-stepped");
        }
        out.sim_time = ticks_of(&v) as u64 + ticks_of(&r) as u64;
        let (sv, sr) = (v.host.shown(), r.host.shown());
        if v.sim.psr().privileged() {
            // (only reachable with the privilege checks off) the program ended in supervisor mode:
            // not a user-mode program any more
            out.bump("harness.not-user-mode");
            return None;
        }
        let mut fp = Fp::new();
        fp.add_str(&format!("{ev:?}"));
        fp.add(v.sim.instructions_run.min(200));
        match &ev {
            End::Stuck => {
                out.bump("harness.base-not-halting");
                return None;
            }
            End::Halted => {
                if er != End::Halted {
                    return fail("real-end", format!("virtual run halted, real-trap run ended with {er:?}"));
                }
                if sv != sr {
                    return fail("output", format!("display under virtual traps {sv:?}, under real traps {sr:?}"));
                }
                for k in 0..6 {
                    if v.sim.reg_file[reg(k)] != r.sim.reg_file[reg(k)] {
                        return fail("register", format!("R{k} virtual x{:04X}, real x{:04X}", v.sim.reg_file[reg(k)].get(), r.sim.reg_file[reg(k)].get()));
                    }
                }
                if let Some(d) = user_mem_diff(&v, &r, &[]) {
                    return fail("user-memory", d);
                }
                // input consumed (keys that arrive while the real run is still inside the OS halt
                // routine are pushed only there, so queues are compared through what was consumed)
                let pushed = |w: &World| -> usize { w.log.0.lock().unwrap_or_else(|e| e.into_inner()).recs.iter().map(|r| if let Rec::Host { ev: HostEv::PushKeys(b), .. } = r { b.len() } else { 0 }).sum() };
                let (cv, cr) = (pushed(&v) - v.host.kb_contents().len(), pushed(&r) - r.host.kb_contents().len());
                if cv != cr {
                    return fail("input", format!("virtual run consumed {cv} keyboard bytes, real-trap run {cr}"));
                }
                out.bump("probe.end.halt");
            }
            End::Err(k) => {
                let msg: &[u8] = match *k {
                    "AccessViolation" => b"\n--- Access violation ---",
                    "PrivilegeViolation" => b"\n--- Privilege violation ---",
                    "IllegalOpcode" | "InvalidInstrFormat" => b"\n--- Illegal opcode ---",
                    _ => {
                        out.bump("harness.other-error");
                        return None;
                    }
                };
                // the OS message is read from the OS image when its label exists (robust to rewording)
                let label = match *k {
                    "AccessViolation" => "S_EXC_ACV",
                    "PrivilegeViolation" => "S_EXC_PRIVL",
                    _ => "S_EXC_ILLOP",
                };
                let msg: Vec<u8> = os_string(label).unwrap_or_else(|| msg.to_vec());
                let mut expect = sv.clone();
                expect.extend_from_slice(&msg);
                if er != End::Halted {
                    return fail("exception-not-through-os", format!("virtual run stopped with {k}; real-trap run ended with {er:?} instead of halting through the OS"));
                }
                if sr != expect {
                    return fail("exception-output", format!("virtual run stopped with {k}; real-trap display {sr:?}, expected {expect:?}"));
                }
                out.bump("probe.end.exception");
            }
        }
        if v.sim.instructions_run >= 3 {
            out.fingerprint = Some(fp.0 ^ crate::rng::fnv(&scn.srcs[0].text));
        }
        out.trace = fp.0;
        None
    }
}

pub fn build_on_with(scn: &MScn, entropy: u64, objs: Vec<ObjectFile>) -> Result<Result<World, String>, String> {
    struct SendWorld(Result<World, String>);
    unsafe impl Send for SendWorld {}
    let r = std::thread::scope(|s| {
        std::thread::Builder::new()
            .stack_size(8 << 20)
            .spawn_scoped(s, || {
                crate::entropy::set_thread_entropy(entropy);
                SendWorld(build_with(scn, Some(&objs)))
            })
            .expect("spawn")
            .join()
    });
    match r {
        Ok(w) => Ok(w.0),
        Err(p) => Err(panic_msg(&p)),
    }
}

impl Check for C12 {
    type Scn = MScn;
    fn id(&self) -> &'static str {
        "C12"
    }
    fn meta(&self) -> Meta {
        Meta {
            rule: "Generated user programs (I/O traps incl. GETC/IN with scheduled key arrivals, subroutines, stack, loops) ending in HALT or in one deliberate fault (reserved opcode, non-canonical word of a known opcode, RTI, load/store/jump outside user space, unimplemented trap); identical worlds (same init garbage, same key schedule, same interrupt schedule) run once with virtual and once with real traps. Halt: display, R0-R5, user memory, keyboard queue equal and the real run stops through the OS. Exception: real run prints the virtual output plus the OS message for that exception and halts. Non-trivial: >=3 instructions before the end; distinct by ending kind and program.",
            components_real: &["Simulator::run with both trap modes", "OS exception handlers and TRAP_HALT", "keyboard/display devices", "assembler"],
            components_stub: &["ClockDev key arrivals", "ScriptDev sources", "entropy source (same garbage in both twins)"],
            assumptions: &["OS messages are read from the OS image labels S_EXC_*; literal fallbacks if a label disappears"],
            level: "exploration",
            enumerated: "none",
        }
    }
    fn quick_runs(&self) -> u64 {
        12_000
    }
    fn entropy(&self, s: &MScn) -> u64 {
        s.entropy
    }
    fn generate(&self, r: &mut Rng, _t: Tier, _i: u64) -> MScn {
        // the trap mode must not interact with the other flags either. With the privilege checks off a
        // "user program" can write supervisor memory or return into supervisor mode, after which it is
        // no longer the user-mode program the property speaks about: only endings that stay in user
        // space are generated then.
        let ignore_privilege = r.chance(1, 4);
        let end = if ignore_privilege {
            *r.pick(&[EndKind::Halt, EndKind::Halt, EndKind::Reserved, EndKind::NonCanonical])
        } else {
            *r.pick(&[EndKind::Halt, EndKind::Halt, EndKind::Reserved, EndKind::NonCanonical, EndKind::NonCanonical, EndKind::Rti, EndKind::AcvLoad, EndKind::AcvStore, EndKind::JumpOut, EndKind::BadTrap])
        };
        let mut s = gen_structured(r, "C12", false, end);
        s.flags.ignore_privilege = ignore_privilege;
        s.flags.debug_frames = r.chance(1, 3);
        s.ops.clear();
        s.max_ticks = 8000;
        // a recording device that owns the port of the MCR: internal registers take precedence, the OS
        // halt still stops the machine
        if r.chance(1, 8) {
            s.devs.push(DevSpec::Script(ScriptSpec { ports: vec![0xFFFE], vect: 0x9F, prio: 0, raises: vec![], externals: vec![], read_refuse: vec![], write_refuse: vec![], read_base: r.u16(), mcr_clear: vec![], wrap: r.below(3) as u8 }));
        }
        // a quarter of the runs drive the real-trap machine with step_in instead of run()
        match r.below(8) {
            0 | 1 => s.profile = "C12-step".into(),
            // ... or in slices of k instructions
            2 | 3 => s.profile = format!("C12-slice-{}", *r.pick(&[1u64, 1, 2, 3, 5, 13, 50])),
            _ => {}
        }
        // no lock holds here: after the virtual run has stopped the real run makes more device calls, so
        // a hold indexed by call number would hit only the real run (and drop a byte: that is C33's
        // known finding, not a difference between trap modes)
        for io in [&mut s.kb, &mut s.disp] {
            if let IoSpec::Wrapped { hold_calls, .. } = io {
                hold_calls.clear();
            }
        }
        // a store aimed at backed I/O (MCR, KBSR, DDR) is the interesting access violation
        if end == EndKind::AcvStore || end == EndKind::AcvLoad {
            let t = *r.pick(&["xFFFE", "xFE00", "xFE06", "xFFFC", "x0000", "x2FFF", "xFE02"]);
            let txt = s.srcs[0].text.clone();
            if let Some(i) = txt.find("PSUP .fill x") {
                let mut n = txt[..i].to_string();
                n.push_str(&format!("PSUP .fill {t}"));
                n.push_str(&txt[i + 16..]);
                s.srcs[0].text = n;
            }
            if end == EndKind::AcvStore {
                // value stored: bit 15 clear / bit 14 set variants matter for MCR / KBSR
                s.srcs[0].text = s.srcs[0].text.replacen("    STR R0, R1, #0", &format!("    LD R0, D0\n    STR R0, R1, #0"), 1);
            }
        }
        // interrupts with handlers are fine (same schedule on both sides) but external ones are not part of the property
        for d in s.devs.iter_mut() {
            match d {
                DevSpec::Script(x) => x.externals.clear(),
                // interval well above the handler length: an interrupt storm starves the OS
                // exception routine, which is legitimate behaviour and not what this property is about
                DevSpec::Timer(t) => {
                    t.lo += 80;
                    t.hi += 80;
                }
            }
        }
        // a source without a handler falls into the OS default handler, which prints; after the
        // virtual run has stopped at its exception the real run is still executing OS code, so such
        // output would be a legitimate difference: give every source a silent handler
        let devs = s.devs.clone();
        for (i, d) in devs.iter().enumerate() {
            if let DevSpec::Script(x) = d {
                if !x.ports.is_empty() && !s.pokes.iter().any(|(a, _)| *a == 0x100 + x.vect as u16) {
                    let haddr = 0x1800 + 0x40 * i as u16;
                    s.srcs.push(SrcSpec { text: gen_handler(r, haddr, Some(x.ports[0]), false, 1), debug: false });
                    s.pokes.push((0x100 + x.vect as u16, vec![haddr]));
                }
            }
        }
        s
    }
    fn execute(&self, s: &MScn) -> Outcome {
        let mut out = Outcome::default();
        let v = self.run(s, &mut out);
        out.violation = v;
        out
    }
    fn shrink(&self, s: &MScn) -> Vec<MScn> {
        let mut c = shrink_mscn(s);
        if s.srcs.is_empty() {
            return c;
        }
        let lines: Vec<&str> = s.srcs[0].text.lines().collect();
        for i in (1..lines.len().saturating_sub(1)).rev() {
            if !lines[i].starts_with("    ") || lines[i].trim().starts_with('.') {
                continue;
            }
            let mut t = s.clone();
            let mut nl = lines.clone();
            nl.remove(i);
            t.srcs[0].text = nl.join("\n") + "\n";
            c.push(t);
        }
        c
    }
}

// ===========================================================================
// C14 — strict mode only adds uninitialised-value errors

pub struct C14;
impl C14 {
    fn run(&self, scn: &MScn, out: &mut Outcome) -> Option<Violation> {
        let objs = match assemble_all(scn) {
            Some(o) => o,
            None => {
                out.bump("harness.unbuildable");
                return None;
            }
        };
        let mk = |strict: bool| {
            let mut s = scn.clone();
            s.flags.strict = strict;
            build_on_with(&s, scn.entropy, objs.clone())
        };
        let (mut n, mut s) = match (mk(false), mk(true)) {
            (Ok(Ok(a)), Ok(Ok(b))) => (a, b),
            (Err(p), _) | (_, Err(p)) => return Some(Violation { class: "panic-in-setup".into(), step: 0, detail: p }),
            _ => {
                out.bump("harness.unbuildable");
                return None;
            }
        };
        let fully_init = scn.profile == "C14-full";
        if fully_init {
            for w in [&mut n, &mut s] {
                for a in 0..=0xFFFFu16 {
                    if !w.sim.mem[a].is_init() {
                        let v = w.sim.mem[a].get();
                        w.sim.mem[a].set(v);
                    }
                }
                for k in 0..8 {
                    let v = w.sim.reg_file[reg(k)].get();
                    w.sim.reg_file[reg(k)].set(v);
                }
            }
        }
        let mut fp = Fp::new();
        let mut touched_uninit = false;
        let mut steps = 0u64;
        let total: u32 = scn.ops.iter().map(|o| if let Op::Step(k) = o { *k } else { 0 }).sum();
        let fail = |st: u64, c: &str, d: String| Some(Violation { class: c.to_string(), step: st, detail: d });
        for op in &scn.ops {
            let k = match op {
                Op::Step(k) => *k,
                other => {
                    // configuration ops are applied to both; run-style calls are compared like one big step:
                    // unless strict mode rejected something on the way, both machines must have stopped in the
                    // same place with the same state (breakpoints, limits and step_over/step_out included)
                    let _ = (n.log.take(), s.log.take());
                    let pc = n.sim.pc;
                    let rn = match guarded(|| exec_op(&mut n, other)) {
                        Ok(r) => r,
                        Err(p) => return fail(steps, "panic-in-step", p),
                    };
                    let rs = match guarded(|| exec_op(&mut s, other)) {
                        Ok(r) => r,
                        Err(p) => return fail(steps, "panic-in-step", p),
                    };
                    let (OpRes::Drive(rn), OpRes::Drive(rs)) = (rn, rs) else { continue };
                    steps += 1;
                    out.bump("probe.run-style-call-compared");
                    let (ln, ls) = (n.log.take(), s.log.take());
                    if let Err(k) = rs {
                        if is_strict_err(k) {
                            out.bump("fired.garbage-read");
                            if fully_init {
                                return fail(steps, "strict-error-on-initialised-machine", format!("{other:?} from x{pc:04X} failed with {k} although every memory word and register is initialised"));
                            }
                            out.sim_time = steps * 2;
                            out.trace = fp.0;
                            out.fingerprint = Some(fp.0);
                            return None;
                        }
                    }
                    if rn != rs {
                        return fail(steps, "strict-changed-result", format!("{other:?} from x{pc:04X}: non-strict {rn:?}, strict {rs:?}"));
                    }
                    if n.sim.pc != s.sim.pc || n.sim.psr().get() != s.sim.psr().get() || n.sim.instructions_run != s.sim.instructions_run || n.sim.hit_breakpoint() != s.sim.hit_breakpoint() {
                        return fail(steps, "strict-changed-state", format!("after {other:?} from x{pc:04X}: pc/psr/count/hit_breakpoint non-strict (x{:04X}, x{:04X}, {}, {}) strict (x{:04X}, x{:04X}, {}, {})", n.sim.pc, n.sim.psr().get(), n.sim.instructions_run, n.sim.hit_breakpoint(), s.sim.pc, s.sim.psr().get(), s.sim.instructions_run, s.sim.hit_breakpoint()));
                    }
                    for k in 0..8 {
                        if n.sim.reg_file[reg(k)] != s.sim.reg_file[reg(k)] {
                            return fail(steps, "strict-changed-state", format!("after {other:?} from x{pc:04X}: R{k} differs"));
                        }
                    }
                    if ln != ls {
                        return fail(steps, "strict-changed-device-io", format!("after {other:?} from x{pc:04X}: device calls differ"));
                    }
                    let _ = (n.sim.observer.take_mem_accesses().count(), s.sim.observer.take_mem_accesses().count());
                    for a in 0..=0xFFFFu16 {
                        if n.sim.mem[a] != s.sim.mem[a] {
                            return fail(steps, "strict-changed-state", format!("after {other:?} from x{pc:04X}: mem[x{a:04X}] differs"));
                        }
                    }
                    fp.add_str(rs.err().unwrap_or("ok"));
                    continue;
                }
            };
            for _ in 0..k {
                steps += 1;
                let pc = n.sim.pc;
                let _ = (n.log.take(), s.log.take());
                let rn = match guarded(|| n.sim.step_in()) {
                    Ok(r) => r.map_err(|e| err_kind(&e)),
                    Err(p) => return fail(steps, "panic-in-step", p),
                };
                let rs = match guarded(|| s.sim.step_in()) {
                    Ok(r) => r.map_err(|e| err_kind(&e)),
                    Err(p) => return fail(steps, "panic-in-step", p),
                };
                let (ln, ls) = (n.log.take(), s.log.take());
                fp.add_str(rs.err().unwrap_or("ok"));
                if let Err(k) = rs {
                    if is_strict_err(k) {
                        touched_uninit = true;
                        out.bump("fired.garbage-read");
                        if fully_init {
                            return fail(steps, "strict-error-on-initialised-machine", format!("step at x{pc:04X} failed with {k} although every memory word and register is initialised"));
                        }
                        // the rejected step must have had no device effect of its own
                        let dev_effect = |l: &[Rec]| l.iter().filter(|r| matches!(r, Rec::Read { eff: true, .. } | Rec::Write { .. })).count();
                        if dev_effect(&ls) > dev_effect(&ln) || s.host.kb_contents() != n.host.kb_contents() && dev_effect(&ls) > 0 {
                            return fail(steps, "strict-reject-with-device-effect", format!("step at x{pc:04X} rejected with {k} but it reached a device: strict log {ls:?}, non-strict log {ln:?}"));
                        }
                        if s.host.kb_contents().len() < n.host.kb_contents().len() {
                            return fail(steps, "strict-reject-with-device-effect", format!("step at x{pc:04X} rejected with {k} consumed keyboard input the non-strict twin left queued"));
                        }
                        out.sim_time = steps * 2;
                        out.trace = fp.0;
                        out.fingerprint = Some(fp.0);
                        return None; // property says nothing beyond the first rejected step
                    }
                }
                if rn != rs {
                    return fail(steps, "strict-changed-result", format!("step at x{pc:04X}: non-strict {rn:?}, strict {rs:?} (a step that strict mode rejects must fail with a Strict* error)"));
                }
                // complete state must be identical
                if n.sim.pc != s.sim.pc || n.sim.psr().get() != s.sim.psr().get() || n.sim.instructions_run != s.sim.instructions_run {
                    return fail(steps, "strict-changed-state", format!("after step at x{pc:04X}: pc/psr/count non-strict (x{:04X}, x{:04X}, {}) strict (x{:04X}, x{:04X}, {})", n.sim.pc, n.sim.psr().get(), n.sim.instructions_run, s.sim.pc, s.sim.psr().get(), s.sim.instructions_run));
                }
                for k in 0..8 {
                    if n.sim.reg_file[reg(k)] != s.sim.reg_file[reg(k)] {
                        return fail(steps, "strict-changed-state", format!("after step at x{pc:04X}: R{k} differs"));
                    }
                    if !n.sim.reg_file[reg(k)].is_init() {
                        touched_uninit = true;
                    }
                }
                if ln != ls {
                    return fail(steps, "strict-changed-device-io", format!("after step at x{pc:04X}: device calls differ: non-strict {ln:?} strict {ls:?}"));
                }
                let acc: Vec<u16> = n.sim.observer.take_mem_accesses().map(|(a, _)| a).collect();
                let _ = s.sim.observer.take_mem_accesses().count();
                for a in acc {
                    if n.sim.mem[a] != s.sim.mem[a] {
                        return fail(steps, "strict-changed-state", format!("after step at x{pc:04X}: mem[x{a:04X}] differs"));
                    }
                }
                if steps % 64 == 0 || steps == total as u64 {
                    for a in 0..=0xFFFFu16 {
                        if n.sim.mem[a] != s.sim.mem[a] {
                            return fail(steps, "strict-changed-state", format!("mem[x{a:04X}] differs (full sweep)"));
                        }
                    }
                    if n.host.shown() != s.host.shown() || n.host.kb_contents() != s.host.kb_contents() {
                        return fail(steps, "strict-changed-device-io", "buffers differ".into());
                    }
                }
                if rn.is_err() && !fully_init {
                    // same non-strict error on both sides: nothing more to learn from repeating it
                }
            }
        }
        out.sim_time = steps * 2;
        out.trace = fp.0;
        if touched_uninit || fully_init {
            out.fingerprint = Some(fp.0);
        }
        None
    }
}
impl Check for C14 {
    type Scn = MScn;
    fn id(&self) -> &'static str {
        "C14"
    }
    fn meta(&self) -> Meta {
        Meta {
            rule: "Soup and structured workloads (as C08, including jumps into OS memory and the I/O page under ignore_privilege, .blkw regions, R6-relative accesses, devices and interrupts) on machines with known initialisation layout, executed step by step on two simulators that differ only in flags.strict. Until the strict twin rejects a step: result, pc, psr, registers (value+init), instruction count, device call log, touched memory (and full memory every 64 steps), buffers identical. The first step rejected only by strict mode must fail with a Strict* error and must not have reached a device. Fully-initialised arm (1/4 of runs): every word and register .set() by the host first; strict mode must never report Strict*. Non-trivial: the run touched a not-fully-initialised value (or is the fully-initialised arm).",
            components_real: &["Simulator::step_in in both modes", "Word initialisation tracking", "devices", "assembler"],
            components_stub: &["ClockDev/ScriptDev/Contended", "entropy source (same garbage in both twins)"],
            assumptions: &[],
            level: "exploration",
            enumerated: "none",
        }
    }
    fn quick_runs(&self) -> u64 {
        15_000
    }
    fn entropy(&self, s: &MScn) -> u64 {
        s.entropy
    }
    fn generate(&self, r: &mut Rng, _t: Tier, _i: u64) -> MScn {
        let mut s = if r.chance(1, 2) {
            gen_soup(r, "C14", false)
        } else {
            let e = *r.pick(&[EndKind::Halt, EndKind::Halt, EndKind::JumpOut, EndKind::AcvLoad]);
            gen_structured(r, "C14", false, e)
        };
        if r.chance(1, 4) {
            s.profile = "C14-full".into();
        }
        // run-style histories with value breakpoints on registers / memory words that may be uninitialised
        // (a breakpoint is evaluated on the raw data in both modes)
        if r.chance(1, 3) {
            let total: u32 = s.ops.iter().map(|o| if let Op::Step(k) = o { *k } else { 0 }).sum::<u32>().min(s.max_ticks);
            let mut ops = vec![];
            for _ in 0..1 + r.below(3) {
                let c = match r.below(5) {
                    0 => Cmp::Always,
                    1 => Cmp::Ne(0),
                    2 => Cmp::Ge(0x8000),
                    3 => Cmp::Lt(0x8000),
                    _ => Cmp::Ne(r.u16()),
                };
                ops.push(Op::BpAdd(if r.bool() { BpS::Reg(r.below(8) as u8, c) } else { BpS::Mem(*r.pick(&[0x3000u16, 0x3010, 0x4000, 0x7000, 0xF000, 0x0000]) + r.below(0x20) as u16, c) }));
            }
            let mut left = total;
            while left > 0 {
                let k = (1 + r.below(30) as u32).min(left);
                left -= k;
                ops.push(match r.below(5) {
                    0 => Op::Step(k),
                    1 => Op::StepOver,
                    2 => Op::Run,
                    _ => Op::RunLimit(k as u64),
                });
            }
            s.ops = ops;
        }
        // the PC exposed as a memory-mapped register and written by the program (target: never-written memory)
        if r.chance(1, 8) {
            let port = 0xFE50 + r.below(8) as u16;
            s.iregs.push((port, IReg::PC));
            s.flags.ignore_privilege = true;
            s.regs.retain(|(k, _)| *k != 1 && *k != 2);
            s.regs.push((1, 0x6000 + r.below(0x4000) as u16));
            s.regs.push((2, port));
            let pc = s.pc;
            // STR R1, R2, #0 at the first instruction
            s.pokes.push((pc, vec![0x7280]));
        }
        // jumps into OS memory / the I/O page need the privilege checks off to get past the ACV
        if r.chance(1, 3) {
            s.flags.ignore_privilege = true;
            for k in 0..3 {
                if r.bool() {
                    s.regs.push((k, *r.pick(&[0xFE02u16, 0xFE00, 0x0200, 0x0000, 0xFE04, 0x2FFF])));
                }
            }
        }
        s
    }
    fn execute(&self, s: &MScn) -> Outcome {
        let mut out = Outcome::default();
        let v = self.run(s, &mut out);
        out.violation = v;
        out
    }
    fn shrink(&self, s: &MScn) -> Vec<MScn> {
        shrink_mscn(s)
    }
}

// ===========================================================================
// C09 strict arm — the protection of C09 also holds with flags.strict on (twin runs)

/// The reference model covers non-strict mode only; the lockstep arm of C09 validates the non-strict
/// machine against it. This arm runs the same adversarial scenario on a second machine that differs
/// only in `flags.strict` and requires, for every step that starts in user mode with checks on:
/// a step the non-strict twin refuses (AccessViolation / PrivilegeViolation, or vectored to the OS
/// exception handler under real traps) is refused the same way by the strict twin — a strictness
/// error may take its place only where it is raised before the access is attempted
/// (StrictMemAddrUninit, StrictPCCurrUninit) — and the strict twin reaches no device the
/// non-strict twin did not reach, and leaves memory and buffers as the non-strict twin did.
pub struct C09S;
impl C09S {
    fn run(&self, scn: &MScn, out: &mut Outcome) -> Option<Violation> {
        let objs = match assemble_all(scn) {
            Some(o) => o,
            None => {
                out.bump("harness.unbuildable");
                return None;
            }
        };
        let mk = |strict: bool| {
            let mut s = scn.clone();
            s.flags.strict = strict;
            build_on_with(&s, scn.entropy, objs.clone())
        };
        let (mut n, mut s) = match (mk(false), mk(true)) {
            (Ok(Ok(a)), Ok(Ok(b))) => (a, b),
            (Err(p), _) | (_, Err(p)) => return Some(Violation { class: "panic-in-setup".into(), step: 0, detail: p }),
            _ => {
                out.bump("harness.unbuildable");
                return None;
            }
        };
        let mut fp = Fp::new();
        let mut steps = 0u64;
        let mut refused_in_sync = 0u64;
        let fail = |st: u64, c: &str, d: String| Some(Violation { class: c.to_string(), step: st, detail: d });
        let prot = |r: &Result<(), &'static str>| matches!(r, Err("AccessViolation") | Err("PrivilegeViolation"));
        let nonpoll = |l: &[Rec]| -> Vec<Rec> { l.iter().filter(|r| matches!(r, Rec::Read { .. } | Rec::Write { .. })).cloned().collect() };
        'ops: for op in &scn.ops {
            let k = match op {
                Op::Step(k) => *k,
                other => {
                    let _ = guarded(|| exec_op(&mut n, other));
                    let _ = guarded(|| exec_op(&mut s, other));
                    continue;
                }
            };
            for _ in 0..k {
                steps += 1;
                let pc = n.sim.pc;
                let pre_user_checked = !n.sim.psr().privileged() && !n.sim.flags.ignore_privilege;
                let instr = if (0x3000..0xFE00).contains(&pc) { Some(n.sim.mem[pc].get()) } else { None };
                let _ = (n.log.take(), s.log.take());
                let rn = match guarded(|| n.sim.step_in()) {
                    Ok(r) => r.map_err(|e| err_kind(&e)),
                    Err(p) => return fail(steps, "panic-in-step", p),
                };
                let rs = match guarded(|| s.sim.step_in()) {
                    Ok(r) => r.map_err(|e| err_kind(&e)),
                    Err(p) => return fail(steps, "panic-in-step", p),
                };
                let (ln, ls) = (n.log.take(), s.log.take());
                let _ = (n.sim.observer.take_mem_accesses().count(), s.sim.observer.take_mem_accesses().count());
                fp.add_str(rs.err().unwrap_or("ok"));
                let irq = ln.iter().chain(ls.iter()).any(|r| matches!(r, Rec::Poll { res: PollRes::Vect(..) | PollRes::External, .. }));
                // did the non-strict twin refuse this step?
                let vectored = scn.flags.real_traps
                    && pre_user_checked
                    && !irq
                    && rn.is_ok()
                    && n.sim.psr().privileged()
                    && instr.map(|w| w >> 12 != 0xF).unwrap_or(true)
                    && (n.sim.pc == n.sim.mem[0x0100].get() || n.sim.pc == n.sim.mem[0x0102].get())
                    && n.sim.pc != n.sim.mem[0x0101].get();
                let n_refused = pre_user_checked && (prot(&rn) || vectored);
                let strict_err = matches!(rs, Err(k) if is_strict_err(k));
                if pre_user_checked && !irq {
                    // device reach
                    let (dn, ds) = (nonpoll(&ln), nonpoll(&ls));
                    let reach_ok = if strict_err { ds.len() <= dn.len() && ds[..] == dn[..ds.len()] } else { ds == dn };
                    if !reach_ok {
                        return fail(steps, "strict-device-reach", format!("user-mode step at x{pc:04X} (word {instr:04X?}): strict twin made device calls {ds:?}, non-strict twin {dn:?} (results {rs:?} / {rn:?})"));
                    }
                    if n.host.kb_contents() != s.host.kb_contents() || n.host.shown() != s.host.shown() {
                        return fail(steps, "strict-device-reach", format!("user-mode step at x{pc:04X}: buffers differ between the twins (results {rs:?} / {rn:?})"));
                    }
                }
                if n_refused {
                    out.bump("probe.refused-in-sync");
                    if let Err(k) = rs {
                        // StrictMemAddrUninit precedes the access only where an address is formed from a
                        // register or a pointer cell (LDR, STR, LDI, STI); a user-mode RTI is refused
                        // before its stack pointer is looked at
                        let addr_formed = matches!(instr.map(|w| w >> 12), Some(6) | Some(7) | Some(10) | Some(11));
                        // under real traps the refusal is the exception entry itself, which pushes PSR and PC
                        // on the supervisor stack and jumps through the vector table: with an uninitialised
                        // stack pointer, vector or handler word that entry ends in a strictness error of its own
                        let entry_err = vectored && matches!(k, "StrictMemAddrUninit" | "StrictSRAddrUninit" | "StrictPCNextUninit" | "StrictJmpAddrUninit");
                        let allowed = k == "StrictPCCurrUninit" || (k == "StrictMemAddrUninit" && addr_formed) || entry_err;
                        if is_strict_err(k) && !allowed {
                            return fail(steps, "strict-masks-violation", format!("user-mode step at x{pc:04X} (word {instr:04X?}) is refused by the non-strict machine ({}), the strict machine reports {k} instead", if vectored { "vectored to the exception handler".to_string() } else { format!("{rn:?}") }));
                        }
                    }
                    if !strict_err {
                        let same = rs == rn && s.sim.pc == n.sim.pc && s.sim.psr().get() == n.sim.psr().get();
                        if !same {
                            return fail(steps, "strict-changed-protection-result", format!("user-mode step at x{pc:04X} (word {instr:04X?}): non-strict {rn:?} pc x{:04X} psr x{:04X}, strict {rs:?} pc x{:04X} psr x{:04X}", n.sim.pc, n.sim.psr().get(), s.sim.pc, s.sim.psr().get()));
                        }
                        refused_in_sync += 1;
                        // the refused access left the strict machine as it left the non-strict one
                        for a in 0..=0xFFFFu16 {
                            if n.sim.mem[a] != s.sim.mem[a] {
                                return fail(steps, "strict-refused-changed-memory", format!("after the refused step at x{pc:04X}: mem[x{a:04X}] = x{:04X} (strict) vs x{:04X} (non-strict)", s.sim.mem[a].get(), n.sim.mem[a].get()));
                            }
                        }
                    }
                } else if pre_user_checked && !irq && prot(&rs) {
                    return fail(steps, "strict-changed-protection-result", format!("user-mode step at x{pc:04X} (word {instr:04X?}): strict machine reports {rs:?}, non-strict {rn:?}"));
                }
                if strict_err {
                    out.bump("fired.garbage-read");
                    break 'ops;
                }
                // any other difference is C14's business: stop comparing
                let in_sync = rn == rs && n.sim.pc == s.sim.pc && n.sim.psr().get() == s.sim.psr().get() && (0..8).all(|k| n.sim.reg_file[reg(k)] == s.sim.reg_file[reg(k)]);
                if !in_sync {
                    out.bump("harness.foreign-divergence");
                    break 'ops;
                }
                if rn.is_err() && !scn.flags.real_traps {
                    break 'ops;
                }
            }
        }
        out.sim_time = steps * 2;
        out.trace = fp.0;
        if refused_in_sync > 0 {
            out.fingerprint = Some(fp.0 ^ 0x5);
        }
        None
    }
}
impl Check for C09S {
    type Scn = MScn;
    fn id(&self) -> &'static str {
        "C09s"
    }
    fn meta(&self) -> Meta {
        Meta {
            rule: "strict arm of C09 (twin runs differing only in flags.strict)",
            components_real: &["Simulator::step_in in both modes", "devices"],
            components_stub: &["ClockDev/ScriptDev/Contended"],
            assumptions: &[],
            level: "exploration",
            enumerated: "none",
        }
    }
    fn quick_runs(&self) -> u64 {
        10_000
    }
    fn entropy(&self, s: &MScn) -> u64 {
        s.entropy
    }
    fn generate(&self, r: &mut Rng, _t: Tier, _i: u64) -> MScn {
        let mut s = gen_adversarial(r);
        s.flags.ignore_privilege = false;
        s.profile = "C09-strict".into();
        // half of the strict runs leave the stack pointer (and so RTI's operand) uninitialised
        if r.bool() {
            s.regs.retain(|(k, _)| *k != 6);
        }
        s
    }
    fn execute(&self, s: &MScn) -> Outcome {
        let mut out = Outcome::default();
        let v = self.run(s, &mut out);
        out.violation = v;
        out
    }
    fn shrink(&self, s: &MScn) -> Vec<MScn> {
        shrink_mscn(s)
    }
}

// ===========================================================================
// C09 run-style arm — a violation is reported whichever call executes the instruction

/// The lockstep arm drives the machine with `step_in` only. Here the same adversarial block runs under
/// `run()` with breakpoints set on and around the attacking instructions (resumed after every
/// breakpoint stop), next to a twin stepped with `step_in`: when the stepped twin's first stop is an
/// access or privilege violation, the run-style history must end with the same error at the same
/// instruction and with the same registers.
pub struct C09R;
impl C09R {
    fn run(&self, scn: &MScn, out: &mut Outcome) -> Option<Violation> {
        let objs = match assemble_all(scn) {
            Some(o) => o,
            None => {
                out.bump("harness.unbuildable");
                return None;
            }
        };
        let mk = || build_on_with(scn, scn.entropy, objs.clone());
        let (mut a, mut b) = match (mk(), mk()) {
            (Ok(Ok(a)), Ok(Ok(b))) => (a, b),
            (Err(p), _) | (_, Err(p)) => return Some(Violation { class: "panic-in-setup".into(), step: 0, detail: p }),
            _ => {
                out.bump("harness.unbuildable");
                return None;
            }
        };
        for op in &scn.ops {
            if matches!(op, Op::BpAdd(_)) {
                let _ = guarded(|| exec_op(&mut a, op));
            }
        }
        let fail = |st: u64, c: &str, d: String| Some(Violation { class: c.to_string(), step: st, detail: d });
        // stepped twin
        let mut end_b: Option<(&'static str, u16)> = None;
        let mut steps = 0u64;
        // run() keeps the clock-enable bit (MCR) set while instructions execute; step_in leaves it as it
        // is. A program can see the difference (the OS reads xFFFE when PUTS is pointed at it), so the
        // stepped twin runs with the bit set as well.
        b.sim.mcr().store(true, std::sync::atomic::Ordering::Relaxed);
        for _ in 0..scn.max_ticks {
            // virtual HALT ends the program (step_in reports it as Ok)
            if (0x3000..0xFE00).contains(&b.sim.pc) && b.sim.mem[b.sim.pc].get() == 0xF025 {
                break;
            }
            steps += 1;
            match guarded(|| b.sim.step_in()) {
                Err(p) => return fail(steps, "panic-in-step", p),
                Ok(Err(e)) => {
                    end_b = Some((err_kind(&e), b.sim.prefetch_pc()));
                    break;
                }
                Ok(Ok(())) => {}
            }
        }
        let Some((kb, pcb)) = end_b else {
            out.sim_time = steps;
            return None;
        };
        if !matches!(kb, "AccessViolation" | "PrivilegeViolation") {
            out.sim_time = steps;
            return None;
        }
        out.bump("probe.stepped-twin-violation");
        // run-style history
        let mut end_a: Option<(&'static str, u16)> = None;
        let mut stops = 0u64;
        for _ in 0..(scn.max_ticks as usize + 8) {
            match guarded(|| a.sim.run()) {
                Err(p) => return fail(steps, "panic-in-step", p),
                Ok(Err(e)) => {
                    end_a = Some((err_kind(&e), a.sim.prefetch_pc()));
                    break;
                }
                Ok(Ok(())) => {
                    if a.sim.hit_breakpoint() {
                        stops += 1;
                        out.bump("probe.breakpoint-stop");
                        continue;
                    }
                    break;
                }
            }
        }
        if std::env::var_os("VERIF_DEBUG").is_some() {
            eprintln!("C09R: ops {:?} base x{:04X} stepped-end ({kb}, x{pcb:04X}) after {steps} steps; run-end {end_a:?} stops {stops} bps {}", scn.ops, scn.pc, a.sim.breakpoints.len());
        }
        out.sim_time = steps * 2;
        let mut fp = Fp::new();
        fp.add_str(kb);
        fp.add(pcb as u64);
        fp.add(stops);
        out.trace = fp.0;
        if end_a != Some((kb, pcb)) {
            return fail(steps, "violation-not-reported", format!("stepping the block ends with {kb} at x{pcb:04X} (step {steps}); the same block under run() with breakpoints {:?}, resumed after each stop ({stops} stops), ends with {end_a:?} (pc x{:04X}, hit_breakpoint {})", scn.ops.iter().filter(|o| matches!(o, Op::BpAdd(_))).collect::<Vec<_>>(), a.sim.pc, a.sim.hit_breakpoint()));
        }
        for k in 0..8 {
            if a.sim.reg_file[reg(k)] != b.sim.reg_file[reg(k)] {
                return fail(steps, "violation-state-differs", format!("both histories end with {kb} at x{pcb:04X} but R{k} differs"));
            }
        }
        for x in (0u16..0x3000).chain(0xFE00..=0xFFFF) {
            if a.sim.mem[x] != b.sim.mem[x] && x != 0xFFFE {
                return fail(steps, "violation-state-differs", format!("both histories end with {kb} at x{pcb:04X} but mem[x{x:04X}] outside user space differs"));
            }
        }
        if stops > 0 {
            out.fingerprint = Some(fp.0 ^ 0x9);
        }
        None
    }
}
impl Check for C09R {
    type Scn = MScn;
    fn id(&self) -> &'static str {
        "C09r"
    }
    fn meta(&self) -> Meta {
        Meta { rule: "run-style arm of C09", components_real: &["Simulator::run + breakpoints", "Simulator::step_in"], components_stub: &["ClockDev/ScriptDev/Contended"], assumptions: &[], level: "exploration", enumerated: "none" }
    }
    fn quick_runs(&self) -> u64 {
        6_000
    }
    fn entropy(&self, s: &MScn) -> u64 {
        s.entropy
    }
    fn generate(&self, r: &mut Rng, _t: Tier, _i: u64) -> MScn {
        let mut s = gen_adversarial(r);
        s.flags.ignore_privilege = false;
        s.flags.real_traps = false;
        s.profile = "C09-run".into();
        // no interrupt sources: the two histories poll the devices at the same boundaries, but a
        // breakpoint stop in the middle of a handler is C13's subject, not this arm's
        s.devs.retain(|d| !matches!(d, DevSpec::Script(x) if !x.raises.is_empty() || !x.externals.is_empty() || !x.mcr_clear.is_empty()));
        s.events.retain(|(_, e)| matches!(e, HostEv::PushKeys(_)));
        let base = s.pc;
        let n = s.pokes.first().map(|p| p.1.len()).unwrap_or(4) as u64;
        s.ops.clear();
        for _ in 0..1 + r.below(4) {
            let bp = match r.below(6) {
                0 => BpS::Pc(*r.pick(&[0x0000u16, 0x2FFF, 0xFE00, 0xFE02, 0xFFFF, 0x0200])),
                _ => BpS::Pc(base.wrapping_add(r.below(n + 1) as u16)),
            };
            s.ops.push(Op::BpAdd(bp));
        }
        s.ops.push(Op::Run);
        s
    }
    fn execute(&self, s: &MScn) -> Outcome {
        let mut out = Outcome::default();
        let v = self.run(s, &mut out);
        out.violation = v;
        out
    }
    fn shrink(&self, s: &MScn) -> Vec<MScn> {
        shrink_mscn(s)
    }
}

// ===========================================================================
// C27 strict arm — a call or return that strict mode refuses was not entered / executed

/// RefLc3 covers non-strict mode. With `flags.strict` a step can be refused with a Strict* error;
/// such a step entered no call and executed no return, so the frame depth (and, with debug frames,
/// the frame list length) is what it was before the step. Only steps whose instruction is a
/// subroutine call or a return are judged (JSR, JSRR, RET/JMP, RTI): trap and interrupt entries
/// switch stacks and modes before they can fail and are left alone.
pub struct C27S;
impl C27S {
    fn run(&self, scn: &MScn, out: &mut Outcome) -> Option<Violation> {
        let mut s2 = scn.clone();
        s2.flags.strict = true;
        let mut w = match guarded(|| build(&s2)) {
            Ok(Ok(w)) => w,
            Ok(Err(_)) => {
                out.bump("harness.unbuildable");
                return None;
            }
            Err(p) => return Some(Violation { class: "panic-in-setup".into(), step: 0, detail: p }),
        };
        let mut steps = 0u64;
        let mut refused_calls = 0u64;
        let mut fp = Fp::new();
        'ops: for op in &scn.ops {
            let k = match op {
                Op::Step(k) => *k,
                other => {
                    let _ = guarded(|| exec_op(&mut w, other));
                    continue;
                }
            };
            for _ in 0..k {
                if steps >= scn.max_ticks as u64 {
                    break 'ops;
                }
                steps += 1;
                let pc = w.sim.pc;
                let word = w.sim.mem[pc].get();
                let depth0 = w.sim.frame_stack.len();
                let list0 = w.sim.frame_stack.frames().map(|f| f.len());
                let _ = w.log.take();
                let r = match guarded(|| w.sim.step_in()) {
                    Ok(r) => r.map_err(|e| err_kind(&e)),
                    Err(p) => return Some(Violation { class: "panic-in-step".into(), step: steps, detail: p }),
                };
                let recs = w.log.take();
                fp.add_str(r.err().unwrap_or("ok"));
                let irq = recs.iter().any(|x| matches!(x, Rec::Poll { res: PollRes::Vect(..) | PollRes::External, .. }));
                if let Err(k) = r {
                    if is_strict_err(k) && !irq {
                        let op4 = word >> 12;
                        let is_call_or_ret = op4 == 4 || op4 == 12 || op4 == 8;
                        if is_call_or_ret {
                            refused_calls += 1;
                            out.bump("probe.strict-refused-call-or-return");
                            let depth1 = w.sim.frame_stack.len();
                            let list1 = w.sim.frame_stack.frames().map(|f| f.len());
                            if depth1 != depth0 || list1 != list0 {
                                return Some(Violation { class: "refused-step-changed-frames".into(), step: steps, detail: format!("step at x{pc:04X} (word x{word:04X}) was refused with {k}: it entered no call and executed no return, yet frame depth went {depth0} -> {depth1} (frame list {list0:?} -> {list1:?})") });
                            }
                        }
                        break 'ops;
                    }
                    break 'ops;
                }
            }
        }
        w.host.release_all();
        out.sim_time = steps;
        out.trace = fp.0;
        if refused_calls > 0 {
            out.fingerprint = Some(fp.0 ^ 0x27);
        }
        None
    }
}
impl Check for C27S {
    type Scn = MScn;
    fn id(&self) -> &'static str {
        "C27s"
    }
    fn meta(&self) -> Meta {
        Meta { rule: "strict arm of C27", components_real: &["Simulator::step_in (strict)", "FrameStack"], components_stub: &["ClockDev/ScriptDev"], assumptions: &[], level: "exploration", enumerated: "none" }
    }
    fn quick_runs(&self) -> u64 {
        6_000
    }
    fn entropy(&self, s: &MScn) -> u64 {
        s.entropy
    }
    fn generate(&self, r: &mut Rng, _t: Tier, _i: u64) -> MScn {
        let mut s = gen_frames(r);
        s.profile = "C27-strict".into();
        // calls and returns through registers that may never have been written, into memory that may
        // never have been written
        if r.bool() {
            s.flags.init = InitS::Unseeded;
        }
        if r.chance(1, 3) {
            s.regs.retain(|(k, _)| *k != 7);
        }
        s
    }
    fn execute(&self, s: &MScn) -> Outcome {
        let mut out = Outcome::default();
        let v = self.run(s, &mut out);
        out.violation = v;
        out
    }
    fn shrink(&self, s: &MScn) -> Vec<MScn> {
        shrink_mscn(s)
    }
}

// ===========================================================================
// C31 — seeded simulations are reproducible (twin runs under different ambient entropy)

pub struct C31;
fn trace_run(scn: &MScn, entropy: u64) -> Result<(Vec<u64>, Vec<(u16, u16)>, Option<String>), String> {
    // executed on its own thread so that HashMap keys, ThreadRng and every other OS-entropy
    // consumer differ between the twins
    let scn = scn.clone();
    struct Out(Result<(Vec<u64>, Vec<(u16, u16)>, Option<String>), String>);
    unsafe impl Send for Out {}
    let r = std::thread::scope(|sc| {
        std::thread::Builder::new()
            .stack_size(8 << 20)
            .spawn_scoped(sc, move || {
                crate::entropy::set_thread_entropy(entropy);
                Out((|| {
                    let mut w = match guarded(|| build(&scn))? {
                        Ok(w) => w,
                        Err(e) => return Err(format!("unbuildable: {e}")),
                    };
                    // Known strategy: every register and every word outside the OS image and the I/O page holds the value
                    let mut known_bad = None;
                    if let InitS::Known(v) = scn.flags.init {
                        let os: std::collections::BTreeSet<u16> = lc3_ensemble::sim::_os_obj_file().addr_iter().map(|(a, _)| a).collect();
                        let loaded: std::collections::BTreeSet<u16> = w.objs.iter().flat_map(|o| o.addr_iter().filter(|(_, x)| x.is_some()).map(|(a, _)| a).collect::<Vec<_>>()).collect();
                        let poked: std::collections::BTreeSet<u16> = scn.pokes.iter().flat_map(|(a, ws)| (0..ws.len() as u16).map(move |i| a.wrapping_add(i))).collect();
                        for a in 0..0xFE00u16 {
                            if !os.contains(&a) && !loaded.contains(&a) && !poked.contains(&a) && w.sim.mem[a].get() != v {
                                known_bad = Some(format!("Known({v:#x}): mem[x{a:04X}] = x{:04X} after construction", w.sim.mem[a].get()));
                                break;
                            }
                        }
                        for k in 0..8u8 {
                            if !scn.regs.iter().any(|(r, _)| *r == k) && w.sim.reg_file[reg(k)].get() != v {
                                known_bad = Some(format!("Known({v:#x}): R{k} = x{:04X} after construction", w.sim.reg_file[reg(k)].get()));
                            }
                        }
                    }
                    let mut tr = vec![];
                    let mut budget = scn.max_ticks;
                    let mut plan: Vec<Option<&Op>> = vec![];
                    for o in &scn.ops {
                        match o {
                            Op::Step(k) => {
                                for _ in 0..(*k).min(budget) {
                                    plan.push(None);
                                }
                                budget -= (*k).min(budget);
                            }
                            other => plan.push(Some(other)),
                        }
                    }
                    for item in plan {
                        if let Some(op) = item {
                            // host operation between steps (reset, reload, pc): part of the history
                            let _ = guarded(|| exec_op(&mut w, op))?;
                            let mut f = Fp::new();
                            f.add(0x0900);
                            f.add(w.sim.pc as u64);
                            for k in 0..8 {
                                f.add(w.sim.reg_file[reg(k)].get() as u64);
                                f.add(w.sim.reg_file[reg(k)].is_init() as u64);
                            }
                            tr.push(f.0);
                            continue;
                        }
                        let r = guarded(|| w.sim.step_in())?;
                        let mut f = Fp::new();
                        f.add(w.sim.pc as u64);
                        f.add(w.sim.psr().get() as u64);
                        for k in 0..8 {
                            f.add(w.sim.reg_file[reg(k)].get() as u64);
                            f.add(w.sim.reg_file[reg(k)].is_init() as u64);
                        }
                        for (a, _) in w.sim.observer.take_mem_accesses() {
                            f.add(a as u64);
                            f.add(w.sim.mem[a].get() as u64);
                        }
                        f.add(w.sim.frame_stack.len());
                        for (_, t) in &w.timers {
                            f.add(t.lock().unwrap_or_else(|e| e.into_inner()).get_remaining() as u64);
                        }
                        f.add_str(r.as_ref().err().map(err_kind).unwrap_or("ok"));
                        tr.push(f.0);
                    }
                    let shown = w.host.shown();
                    let mut f = Fp::new();
                    for b in shown {
                        f.add(b as u64);
                    }
                    tr.push(f.0);
                    let mem: Vec<(u16, u16)> = (0..=0xFFFFu16).map(|a| (w.sim.mem[a].get(), w.sim.mem[a].is_init() as u16)).collect();
                    w.host.release_all();
                    Ok((tr, mem, known_bad))
                })())
            })
            .expect("spawn")
            .join()
    });
    match r {
        Ok(o) => o.0,
        Err(p) => Err(panic_msg(&p)),
    }
}
impl Check for C31 {
    type Scn = MScn;
    fn id(&self) -> &'static str {
        "C31"
    }
    fn meta(&self) -> Meta {
        Meta {
            rule: "Scenarios with Seeded(s) or Known(v) machine initialisation, seeded timers (random inclusive and half-open ranges), keyboard input schedule, scripted interrupts, programs with .blkw regions that read never-written memory; executed twice on different OS threads under different ambient entropy seeds (so HashMap orders, ThreadRng and anything else fed by the OS differ). Per-step traces (pc, psr, R0-R7 value+init, every touched memory word, frame depth, timer remaining, result) and final full memory must be identical; Known(v): right after construction every register and every word outside the OS image, the loaded files and the I/O page equals v. Non-trivial: >=1 timer device or >=1 read of never-written memory. Distinct: trace hash.",
            components_real: &["Simulator::new with Seeded/Known strategies", "load_obj_file", "TimerDevice::new(Some(seed))", "step_in", "devices"],
            components_stub: &["getrandom entropy source (deliberately different between the twins)", "ClockDev/ScriptDev"],
            assumptions: &[],
            level: "exploration",
            enumerated: "none",
        }
    }
    fn quick_runs(&self) -> u64 {
        8_000
    }
    fn entropy(&self, s: &MScn) -> u64 {
        s.entropy
    }
    fn generate(&self, r: &mut Rng, _t: Tier, _i: u64) -> MScn {
        let df = r.bool();
        let mut s = if r.chance(1, 3) { gen_soup(r, "C31", false) } else { gen_structured(r, "C31", df, EndKind::Halt) };
        s.flags.init = if r.chance(1, 3) { InitS::Known(r.u16()) } else { InitS::Seeded(r.next_u64()) };
        s.max_ticks = s.max_ticks.min(600);
        // timers with seeded RNG and non-degenerate ranges, inclusive and half-open
        for _ in 0..r.below(3) {
            let vect = 0x60 + r.below(0x10) as u8;
            let haddr = 0x1400 + 0x40 * (s.devs.len() as u16);
            s.srcs.push(SrcSpec { text: gen_handler(r, haddr, None, false, 1), debug: false });
            s.pokes.push((0x100 + vect as u16, vec![haddr]));
            let lo = 2 + r.below(10) as u32;
            let hi = lo + 1 + r.below(12) as u32;
            s.devs.push(DevSpec::Timer(TimerSpec { seed: Some(r.next_u64()), lo, hi, incl: r.bool(), vect, prio: 1 + r.below(7) as u8, enabled: true }));
        }
        // a program region that reads .blkw storage before writing it
        if r.chance(1, 2) {
            s.srcs.push(SrcSpec { text: format!(".orig x{:04X}\n.blkw {}\n.end\n", 0x7000 + r.below(0x100) as u16, 1 + r.below(8)), debug: false });
            s.regs.push((r.below(6) as u8, 0x7000 + r.below(0x100) as u16));
        }
        // a seeded timer that starts with an exact count and is widened by the host later
        if r.chance(1, 4) {
            let vect = 0x70 + r.below(0x8) as u8;
            let haddr = 0x1400 + 0x40 * (s.devs.len() as u16);
            s.srcs.push(SrcSpec { text: gen_handler(r, haddr, None, false, 1), debug: false });
            s.pokes.push((0x100 + vect as u16, vec![haddr]));
            let n = 3 + r.below(8) as u32;
            let ix = s.devs.len();
            s.devs.push(DevSpec::Timer(TimerSpec { seed: Some(r.next_u64()), lo: n, hi: n, incl: true, vect, prio: 1 + r.below(7) as u8, enabled: true }));
            let total: u32 = s.ops.iter().map(|o| if let Op::Step(k) = o { *k } else { 0 }).sum::<u32>().min(s.max_ticks);
            let a = r.below(total as u64 / 2 + 1) as u32;
            s.ops = vec![Op::Step(a), Op::TimerRange(ix, 2 + r.below(4) as u32, 12 + r.below(12) as u32, r.bool()), Op::Step(total - a)];
        }
        // histories with a reset (memory and registers are re-created under the same strategy) or a
        // reload on top of the used machine in the middle
        if s.ops.len() <= 1 && r.chance(1, 2) {
            let total: u32 = s.ops.iter().map(|o| if let Op::Step(k) = o { *k } else { 0 }).sum::<u32>().min(s.max_ticks);
            let a = r.below(total as u64 + 1) as u32;
            let mut ops = vec![Op::Step(a)];
            if r.bool() {
                ops.push(Op::Reset);
                for k in 0..s.srcs.len() {
                    ops.push(Op::Load(k));
                }
                ops.push(Op::SetPc(s.pc));
            } else {
                ops.push(Op::Load(r.below(s.srcs.len().max(1) as u64) as usize));
            }
            ops.push(Op::Step(total - a));
            s.ops = ops;
        }
        s
    }
    fn execute(&self, s: &MScn) -> Outcome {
        let mut out = Outcome::default();
        let a = trace_run(s, s.entropy);
        let b = trace_run(s, s.entropy ^ 0xDEAD_BEEF_1234_5678);
        let (a, b) = match (a, b) {
            (Ok(a), Ok(b)) => (a, b),
            (Err(e), _) | (_, Err(e)) => {
                if e.starts_with("unbuildable") {
                    out.bump("harness.unbuildable");
                    return out;
                }
                out.violation = Some(Violation { class: "panic".into(), step: 0, detail: e });
                return out;
            }
        };
        out.bump("fired.entropy-skew");
        out.sim_time = (a.0.len() + b.0.len()) as u64;
        if let Some(k) = a.2.clone().or(b.2.clone()) {
            out.violation = Some(Violation { class: "known-init".into(), step: 0, detail: k });
            return out;
        }
        if let Some(i) = (0..a.0.len().min(b.0.len())).find(|&i| a.0[i] != b.0[i]) {
            out.violation = Some(Violation { class: "trace-diverges".into(), step: i as u64, detail: format!("twin runs under different ambient entropy diverge at step {i}") });
            return out;
        }
        if let Some(x) = (0..0x10000usize).find(|&x| a.1[x] != b.1[x]) {
            out.violation = Some(Violation { class: "memory-differs".into(), step: a.0.len() as u64, detail: format!("final mem[x{x:04X}] = {:?} vs {:?}", a.1[x], b.1[x]) });
            return out;
        }
        let mut f = Fp::new();
        for x in &a.0 {
            f.add(*x);
        }
        out.trace = f.0;
        let has_timer = s.devs.iter().any(|d| matches!(d, DevSpec::Timer(_)));
        if has_timer || s.srcs.iter().any(|x| x.text.contains(".blkw")) {
            out.fingerprint = Some(f.0);
        }
        out
    }
    fn shrink(&self, s: &MScn) -> Vec<MScn> {
        shrink_mscn(s)
    }
}

#[allow(dead_code)]
fn _unused() {
    let _ = sorted(vec![]);
}
