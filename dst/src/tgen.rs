//! World T "authors": generate well-formed LC-3 source files together with what they
//! mean (RefObj), by construction — the generator knows every statement's address and
//! encoding and never asks the crate's assembler.

use std::collections::BTreeMap;

use crate::genr::enc;
use crate::rng::Rng;

#[derive(Clone, Debug)]
pub struct RefObj {
    /// address -> Some(word) / None (reserved by .blkw)
    pub image: BTreeMap<u16, Option<u16>>,
    /// block start -> length
    pub blocks: BTreeMap<u16, u16>,
    /// UPPER name -> (addr, external)
    pub labels: BTreeMap<String, (u16, bool)>,
    /// address of a `.fill EXT` word -> UPPER name of the external it refers to
    pub relocs: BTreeMap<u16, String>,
    /// address -> trimmed text of the source line of the statement whose first word lives there
    pub line_text: BTreeMap<u16, String>,
    /// UPPER name -> spelling at its first occurrence
    pub spelling: BTreeMap<String, String>,
}

#[derive(Clone, Debug)]
pub struct GenFile {
    pub text: String,
    pub obj: RefObj,
    /// line index -> address for statement lines (what C24 would say; used by C22)
    pub lines: BTreeMap<usize, u16>,
}

#[derive(Clone, Copy, Debug, PartialEq, Eq, serde::Serialize, serde::Deserialize)]
pub enum Role {
    Absent,
    Define,
    Extern,
}

#[derive(Clone, Debug, PartialEq, serde::Serialize, serde::Deserialize)]
pub struct FileOpts {
    pub id: usize,
    /// (origin, number of statements) per block; the caller guarantees the ranges do not overlap within the file
    pub blocks: Vec<(u16, usize)>,
    /// shared label universe with this file's role per name
    pub shared: Vec<(String, Role)>,
    /// pin the address of a defined shared label: (name index, block index, word offset hint)
    pub exotic: bool,
    pub crlf: bool,
    /// place `.external` declarations: 0 = before everything, 1 = between, 2 = after its uses, 3 = random
    pub ext_place: u8,
    pub max_blkw: u16,
    /// put the first shared label this file defines on the very first word of its first block
    #[serde(default)]
    pub pin_first: bool,
    /// (block index, n): that block ends with a `.blkw n` of a size no hand-written test uses
    /// (n*3 does not fit 16 bits, ...)
    #[serde(default)]
    pub huge: Option<(usize, u16)>,
    /// the file starts with a comment line of this many characters (source positions >= 2^16)
    #[serde(default)]
    pub pad_comment: usize,
    /// plain head: nothing before the first `.orig`, which is written `.orig xNNNN`, and the first
    /// statement carries a label on its own line start — files of one set then share their first bytes,
    /// so their first labels sit at the same source position
    #[serde(default)]
    pub plain_head: bool,
    /// let some blocks start exactly where the previous block of the file ends (no gap word between
    /// two regions of one file); decided from values already drawn, so no random stream moves
    #[serde(default)]
    pub abut: bool,
}

#[derive(Clone, Debug)]
enum K {
    FillConst(u16),
    FillLabel(String),
    Blkw(u16),
    Stringz(String),
    Plain(u16, String),
    PcRel { base: u16, bits: u32, text: String, target: String },
    External(String),
    /// no statement at all: labels standing right before `.end` (address one past the block's last word)
    LabelOnly,
}
impl K {
    fn size(&self) -> u16 {
        match self {
            K::Blkw(n) => *n,
            K::Stringz(s) => s.len() as u16 + 1,
            K::External(_) | K::LabelOnly => 0,
            _ => 1,
        }
    }
}
#[derive(Clone, Debug)]
struct St {
    labels: Vec<String>,
    k: K,
}

fn recase(r: &mut Rng, s: &str, mode: u8) -> String {
    match mode {
        0 => s.to_uppercase(),
        1 => s.to_lowercase(),
        _ => s.chars().map(|c| if r.bool() { c.to_ascii_uppercase() } else { c.to_ascii_lowercase() }).collect(),
    }
}

fn comment(r: &mut Rng, exotic: bool) -> String {
    let plain = ["loop head", "x = x + 1", "save R7", "TODO: check", "", "----", "end of data"];
    if !exotic {
        return format!("; {}", r.pick(&plain));
    }
    let bits = ["\"quoted\"", "back\\slash", "tab\there", "a | b | c", "====", " | ", "#hash", ".TEXT", "naïve café", "日本語", "\u{1}ctl\u{7f}", "emoji 🎉", "'single'", "\\n not a newline", "trailing  ", "\\u{41}", "%s %d {}", "\\\\", "\u{0}12", "nul\u{0}7", "\u{0}", "\\0", "\\x41", "\u{1b}[0m", "\u{85}\u{2028}", "| lone |", "\t|\t", "a|b"];
    let n = 1 + r.below(3);
    let mut s = String::from(";");
    for _ in 0..n {
        s.push(' ');
        s.push_str(*r.pick(&bits));
    }
    s
}

fn plain_instr(r: &mut Rng) -> (u16, String) {
    let g = |r: &mut Rng| r.below(8) as u16;
    match r.below(11) {
        0 => {
            let (d, a, b) = (g(r), g(r), g(r));
            (enc::add_r(d, a, b), format!("ADD R{d}, R{a}, R{b}"))
        }
        1 => {
            let (d, a, i) = (g(r), g(r), r.range(-16, 15) as i16);
            (enc::add_i(d, a, i), format!("ADD R{d}, R{a}, #{i}"))
        }
        2 => {
            let (d, a, b) = (g(r), g(r), g(r));
            (enc::and_r(d, a, b), format!("AND R{d}, R{a}, R{b}"))
        }
        3 => {
            let (d, a, i) = (g(r), g(r), r.range(-16, 15) as i16);
            (enc::and_i(d, a, i), format!("AND R{d}, R{a}, #{i}"))
        }
        4 => {
            let (d, a) = (g(r), g(r));
            (enc::not(d, a), format!("NOT R{d}, R{a}"))
        }
        5 => {
            let (d, b, o) = (g(r), g(r), r.range(-32, 31) as i16);
            (enc::ldr(d, b, o), format!("LDR R{d}, R{b}, #{o}"))
        }
        6 => {
            let (d, b, o) = (g(r), g(r), r.range(-32, 31) as i16);
            (enc::str(d, b, o), format!("STR R{d}, R{b}, #{o}"))
        }
        7 => {
            let b = g(r);
            if b == 7 && r.bool() {
                (enc::RET, "RET".into())
            } else {
                (enc::jmp(b), format!("JMP R{b}"))
            }
        }
        8 => {
            let b = g(r);
            (enc::jsrr(b), format!("JSRR R{b}"))
        }
        9 => match r.below(8) {
            0 => (enc::trap(0x20), "GETC".into()),
            1 => (enc::trap(0x21), "OUT".into()),
            2 => (enc::trap(0x22), "PUTS".into()),
            3 => (enc::trap(0x23), "IN".into()),
            4 => (enc::trap(0x24), "PUTSP".into()),
            5 => (enc::trap(0x25), "HALT".into()),
            6 => (enc::RTI, "RTI".into()),
            _ => {
                let v = r.below(256) as u16;
                (enc::trap(v), format!("TRAP x{v:02X}"))
            }
        },
        _ => {
            // numeric PC-relative forms
            let o = r.range(-256, 255) as i16;
            let d = g(r);
            match r.below(5) {
                0 => (enc::ld(d, o), format!("LD R{d}, #{o}")),
                1 => (enc::st(d, o), format!("ST R{d}, #{o}")),
                2 => (enc::lea(d, o), format!("LEA R{d}, #{o}")),
                3 => (enc::br(r.below(7) as u16 + 1, o), String::new()),
                _ => (enc::ldi(d, o), format!("LDI R{d}, #{o}")),
            }
        }
    }
}

fn br_text(word: u16) -> String {
    let nzp = (word >> 9) & 7;
    let mut s = String::from("BR");
    if nzp & 4 != 0 {
        s.push('n');
    }
    if nzp & 2 != 0 {
        s.push('z');
    }
    if nzp & 1 != 0 {
        s.push('p');
    }
    let off = ((word << 7) as i16) >> 7;
    format!("{s} #{off}")
}

pub fn gen_file(r: &mut Rng, o: &FileOpts) -> GenFile {
    // ---- pass 0: choose statements per block
    let mut blocks: Vec<(u16, Vec<St>)> = vec![];
    let mut local_n = 0usize;
    for (orig, n) in &o.blocks {
        let mut sts = vec![];
        let mut room: i64 = 0xFE00i64 - *orig as i64;
        for _ in 0..*n {
            let k = match r.below(12) {
                0 | 1 => K::FillConst(r.u16()),
                2 => K::Blkw(1 + r.below(o.max_blkw.max(1) as u64) as u16),
                3 => {
                    let n = r.below(6) as usize;
                    K::Stringz((0..n).map(|_| (0x20 + r.below(0x5F) as u8) as char).filter(|c| *c != '"' && *c != '\\').collect())
                }
                4 | 5 => K::FillLabel(String::new()), // target chosen in pass 1
                6 | 7 => K::PcRel { base: 0, bits: 0, text: String::new(), target: String::new() },
                _ => {
                    let (w, t) = plain_instr(r);
                    let t = if t.is_empty() { br_text(w) } else { t };
                    K::Plain(w, t)
                }
            };
            // near the end of memory fall back to one-word statements so that blocks can end exactly at xFE00
            let k = if room - (k.size() as i64) < 0 { K::FillConst(r.u16()) } else { k };
            if room - (k.size() as i64) < 0 {
                break;
            }
            room -= k.size() as i64;
            let mut labels = vec![];
            if r.chance(1, 3) {
                labels.push(format!("L{}_{}", local_n, o.id));
                local_n += 1;
                if r.chance(1, 8) {
                    labels.push(format!("L{}_{}", local_n, o.id));
                    local_n += 1;
                }
            }
            sts.push(St { labels, k });
        }
        if sts.is_empty() && *n > 0 {
            sts.push(St { labels: vec![], k: K::FillConst(r.u16()) });
        }
        // labels right before `.end`; a block with no statements may consist of such a label only, or of nothing
        if (*n > 0 && r.chance(1, 6)) || (*n == 0 && r.bool()) {
            sts.push(St { labels: vec![format!("T{}_{}", local_n, o.id)], k: K::LabelOnly });
            local_n += 1;
        }
        if o.plain_head && blocks.is_empty() && !sts.is_empty() && sts[0].labels.is_empty() {
            sts[0].labels.push(format!("H{}", o.id % 10));
        }
        if let Some((hb, hn)) = o.huge {
            if hb == blocks.len() && room - hn as i64 >= 0 {
                sts.push(St { labels: vec![format!("HUGE_{}", o.id)], k: K::Blkw(hn) });
            }
        }
        let mut orig = *orig;
        let len: u32 = sts.iter().map(|s| s.k.size() as u32).sum();
        if o.abut && len > 0 {
            if let Some((po, psts)) = blocks.last() {
                let plen: u32 = psts.iter().map(|s| s.k.size() as u32).sum();
                let pend = *po as u32 + plen;
                if plen > 0
                    && pend < orig as u32
                    && (orig as u32 + plen) % 3 == 0
                    && !blocks.iter().any(|(bo, _)| (*bo as u32) >= pend && (*bo as u32) < orig as u32)
                {
                    orig = pend as u16;
                }
            }
        }
        blocks.push((orig, sts));
    }
    // shared labels defined by this file go on random statements
    let mode = r.below(3) as u8;
    let mut spelling: BTreeMap<String, String> = BTreeMap::new();
    let mut pinned = false;
    for (name, role) in &o.shared {
        if *role == Role::Define && !blocks.is_empty() {
            let (b, i) = if o.pin_first && !pinned {
                pinned = true;
                (0, 0)
            } else {
                let b = r.below(blocks.len() as u64) as usize;
                if blocks[b].1.is_empty() {
                    blocks[b].1.push(St { labels: vec![], k: K::LabelOnly });
                }
                (b, r.below(blocks[b].1.len() as u64) as usize)
            };
            if blocks[b].1.is_empty() {
                blocks[b].1.push(St { labels: vec![], k: K::LabelOnly });
            }
            let sp = recase(r, name, 2);
            blocks[b].1[i].labels.push(sp);
        }
    }
    // ---- pass 1: addresses of labels
    let mut addr_of: BTreeMap<String, u16> = BTreeMap::new(); // UPPER -> addr (defined here)
    for (orig, sts) in &blocks {
        let mut a = *orig;
        for st in sts {
            for l in &st.labels {
                addr_of.entry(l.to_uppercase()).or_insert(a);
            }
            a = a.wrapping_add(st.k.size());
        }
    }
    let externs: Vec<String> = o.shared.iter().filter(|(_, ro)| *ro == Role::Extern).map(|(n, _)| n.clone()).collect();
    // ---- pass 2: resolve operands
    for (orig, sts) in blocks.iter_mut() {
        let mut a = *orig;
        for st in sts.iter_mut() {
            let here = a;
            match &mut st.k {
                K::FillLabel(t) => {
                    // external (if any), else any label defined in this file, else constant
                    let defined: Vec<&String> = addr_of.keys().collect();
                    if !externs.is_empty() && (defined.is_empty() || r.chance(1, 2)) {
                        let e: String = r.pick(&externs).clone();
                        *t = recase(r, &e, 2);
                    } else if !defined.is_empty() {
                        let e: String = (*r.pick(&defined)).clone();
                        *t = recase(r, &e, 2);
                    } else {
                        st.k = K::FillConst(r.u16());
                    }
                }
                K::PcRel { base, bits, text, target } => {
                    let d = r.below(8) as u16;
                    let (b, bt, mn): (u16, u32, String) = match r.below(7) {
                        0 => (0x2000 | d << 9, 9, format!("LD R{d},")),
                        1 => (0x3000 | d << 9, 9, format!("ST R{d},")),
                        2 => (0xA000 | d << 9, 9, format!("LDI R{d},")),
                        3 => (0xB000 | d << 9, 9, format!("STI R{d},")),
                        4 => (0xE000 | d << 9, 9, format!("LEA R{d},")),
                        5 => (0x4800, 11, "JSR".into()),
                        _ => {
                            let nzp = 1 + r.below(7) as u16;
                            let mut s = String::from("BR");
                            if nzp & 4 != 0 {
                                s.push('n');
                            }
                            if nzp & 2 != 0 {
                                s.push('z');
                            }
                            if nzp & 1 != 0 {
                                s.push('p');
                            }
                            (nzp << 9, 9, s)
                        }
                    };
                    let lim = 1i32 << (bt - 1);
                    let reach: Vec<&String> = addr_of.iter().filter(|(_, ta)| {
                        let off = (**ta as i32) - (here as i32 + 1);
                        off >= -lim && off < lim
                    }).map(|(n, _)| n).collect();
                    if reach.is_empty() {
                        let (w, t) = plain_instr(r);
                        let t = if t.is_empty() { br_text(w) } else { t };
                        st.k = K::Plain(w, t);
                    } else {
                        *base = b;
                        *bits = bt;
                        *text = mn;
                        let e: String = (*r.pick(&reach)).clone();
                        *target = recase(r, &e, 2);
                    }
                }
                _ => {}
            }
            a = a.wrapping_add(st.k.size());
        }
    }
    // ---- where do the .external declarations go? (block index or None = outside, statement position)
    #[derive(Clone)]
    struct ExtDecl {
        name: String,
        // position: before block b's statement i (inside), or before/after block b (outside)
        inside: Option<(usize, usize)>,
        outside_before_block: Option<usize>, // Some(k) = before block k; k == blocks.len() = after all
    }
    let mut decls: Vec<ExtDecl> = vec![];
    for e in &externs {
        let place = if o.ext_place == 3 { r.below(3) as u8 } else { o.ext_place };
        let name = recase(r, e, 2);
        let nb = blocks.len();
        // a file without any block can only declare its externals at top level
        let place = if nb == 0 { 0 } else if o.plain_head && place == 0 { 2 } else { place };
        let d = match place {
            0 => ExtDecl { name, inside: None, outside_before_block: Some(0) },
            2 => {
                if r.bool() {
                    ExtDecl { name, inside: None, outside_before_block: Some(nb) }
                } else {
                    let b = nb - 1;
                    ExtDecl { name, inside: Some((b, blocks[b].1.len())), outside_before_block: None }
                }
            }
            _ => {
                let b = r.below(nb as u64) as usize;
                ExtDecl { name, inside: Some((b, r.below(blocks[b].1.len() as u64 + 1) as usize)), outside_before_block: None }
            }
        };
        decls.push(d);
        if r.chance(1, 6) {
            // declared twice (legal: same "address")
            let mut d2 = decls.last().unwrap().clone();
            d2.name = recase(r, e, 2);
            decls.push(d2);
        }
    }
    // ---- render + RefObj
    let nl = if o.crlf { "\r\n" } else { "\n" };
    let mut text = String::new();
    let mut line_no = 0usize;
    let mut obj = RefObj { image: BTreeMap::new(), blocks: BTreeMap::new(), labels: BTreeMap::new(), relocs: BTreeMap::new(), line_text: BTreeMap::new(), spelling: BTreeMap::new() };
    let mut lines: BTreeMap<usize, u16> = BTreeMap::new();
    let mut push_line = |text: &mut String, line_no: &mut usize, s: &str| {
        text.push_str(s);
        text.push_str(nl);
        *line_no += 1;
    };
    let see_label = |sp: &str, spelling: &mut BTreeMap<String, String>| {
        spelling.entry(sp.to_uppercase()).or_insert_with(|| sp.to_string());
    };
    if o.pad_comment > 0 {
        let c = format!("; {}", "-".repeat(o.pad_comment));
        push_line(&mut text, &mut line_no, &c);
    }
    if !o.plain_head && r.chance(1, 3) {
        let c = comment(r, o.exotic);
        push_line(&mut text, &mut line_no, &c);
    }
    for b in 0..=blocks.len() {
        for d in decls.iter().filter(|d| d.outside_before_block == Some(b)) {
            let l = format!("{} {}", recase(r, ".external", mode), d.name);
            see_label(&d.name, &mut spelling);
            push_line(&mut text, &mut line_no, &l);
        }
        if b == blocks.len() {
            break;
        }
        let (orig, sts) = &blocks[b];
        let plain_here = o.plain_head && b == 0;
        if !plain_here && r.chance(1, 4) {
            push_line(&mut text, &mut line_no, if r.bool() { "" } else { "   \t " });
        }
        let l = if plain_here {
            format!(".orig x{:04X}", orig)
        } else {
            format!("{}{} x{:04X}{}", if r.bool() { "" } else { "  " }, recase(r, ".orig", mode), orig, if r.chance(1, 4) { format!(" {}", comment(r, o.exotic)) } else { String::new() })
        };
        push_line(&mut text, &mut line_no, &l);
        let mut a = *orig;
        let mut len = 0u16;
        for (i, st) in sts.iter().enumerate() {
            for d in decls.iter().filter(|d| d.inside == Some((b, i))) {
                let l = format!("    {} {}", recase(r, ".external", mode), d.name);
                see_label(&d.name, &mut spelling);
                push_line(&mut text, &mut line_no, &l);
            }
            // labels: same line or own line(s)
            let mut prefix = String::new();
            for lb in &st.labels {
                see_label(lb, &mut spelling);
                obj.labels.entry(lb.to_uppercase()).or_insert((a, false));
                let colon = if r.bool() { ":" } else { "" };
                if !(plain_here && i == 0) && r.chance(1, 3) {
                    push_line(&mut text, &mut line_no, &format!("{lb}{colon}"));
                } else {
                    prefix.push_str(&format!("{lb}{colon} "));
                }
            }
            if matches!(st.k, K::LabelOnly) {
                if !prefix.trim().is_empty() {
                    push_line(&mut text, &mut line_no, prefix.trim_end());
                }
                continue;
            }
            let body = match &st.k {
                K::FillConst(v) => {
                    obj.image.insert(a, Some(*v));
                    match r.below(3) {
                        0 => format!("{} x{:04X}", recase(r, ".fill", mode), v),
                        1 => format!("{} #{}", recase(r, ".fill", mode), *v as i16),
                        _ => format!("{} {}", recase(r, ".fill", mode), v),
                    }
                }
                K::FillLabel(t) => {
                    let up = t.to_uppercase();
                    see_label(t, &mut spelling);
                    if let Some(ta) = addr_of.get(&up) {
                        obj.image.insert(a, Some(*ta));
                    } else {
                        obj.image.insert(a, Some(0));
                        obj.relocs.insert(a, up);
                    }
                    format!("{} {}", recase(r, ".fill", mode), t)
                }
                K::Blkw(n) => {
                    for k in 0..*n {
                        obj.image.insert(a.wrapping_add(k), None);
                    }
                    format!("{} {}", recase(r, ".blkw", mode), n)
                }
                K::Stringz(s) => {
                    for (k, ch) in s.bytes().enumerate() {
                        obj.image.insert(a.wrapping_add(k as u16), Some(ch as u16));
                    }
                    obj.image.insert(a.wrapping_add(s.len() as u16), Some(0));
                    format!("{} \"{}\"", recase(r, ".stringz", mode), s)
                }
                K::Plain(w, t) => {
                    obj.image.insert(a, Some(*w));
                    recase(r, t, mode)
                }
                K::PcRel { base, bits, text: mn, target } => {
                    let ta = addr_of[&target.to_uppercase()];
                    let off = ta.wrapping_sub(a.wrapping_add(1));
                    obj.image.insert(a, Some(base | (off & ((1u16 << bits) - 1))));
                    see_label(target, &mut spelling);
                    format!("{} {}", recase(r, mn, mode), target)
                }
                K::External(_) | K::LabelOnly => unreachable!(),
            };
            let indent = if prefix.is_empty() { "    " } else { "" };
            let tail = if r.chance(1, 4) { format!("  {}", comment(r, o.exotic)) } else { String::new() };
            let l = format!("{indent}{prefix}{body}{tail}");
            lines.insert(line_no, a);
            obj.line_text.insert(a, l.trim().to_string());
            push_line(&mut text, &mut line_no, &l);
            if r.chance(1, 8) {
                let c = comment(r, o.exotic);
                push_line(&mut text, &mut line_no, &c);
            }
            a = a.wrapping_add(st.k.size());
            len += st.k.size();
        }
        for d in decls.iter().filter(|d| d.inside == Some((b, sts.len()))) {
            let l = format!("    {} {}", recase(r, ".external", mode), d.name);
            see_label(&d.name, &mut spelling);
            push_line(&mut text, &mut line_no, &l);
        }
        let l = recase(r, ".end", mode);
        push_line(&mut text, &mut line_no, &l);
        obj.blocks.insert(*orig, len);
    }
    for e in &externs {
        obj.labels.entry(e.to_uppercase()).or_insert((0, true));
    }
    if r.chance(1, 3) && !text.is_empty() {
        // no trailing newline
        let cut = nl.len();
        text.truncate(text.len() - cut);
        // ... and blanks after the last token, or a last line made of blanks only
        if r.chance(1, 3) {
            text.push_str(*r.pick(&["  ", "\t", " \t ", "\n    ", "\n\t"]));
        }
    }
    obj.spelling = spelling;
    GenFile { text, obj, lines }
}

/// Reference linker (C20): fail iff two blocks intersect or a label is non-external in both
/// with different addresses; otherwise union with resolution.
pub fn ref_link(files: &[&RefObj]) -> Result<RefObj, &'static str> {
    let mut out = RefObj { image: BTreeMap::new(), blocks: BTreeMap::new(), labels: BTreeMap::new(), relocs: BTreeMap::new(), line_text: BTreeMap::new(), spelling: BTreeMap::new() };
    for f in files {
        for (s, l) in &f.blocks {
            if *l == 0 {
                continue;
            }
            for (s2, l2) in &out.blocks {
                let (a0, a1) = (*s as u32, *s as u32 + *l as u32);
                let (b0, b1) = (*s2 as u32, *s2 as u32 + *l2 as u32);
                if a0 < b1 && b0 < a1 {
                    return Err("overlapping blocks");
                }
            }
            out.blocks.insert(*s, *l);
        }
        for (a, w) in &f.image {
            out.image.insert(*a, *w);
        }
        for (n, (a, ext)) in &f.labels {
            match out.labels.get(n).copied() {
                None => {
                    out.labels.insert(n.clone(), (*a, *ext));
                }
                Some((a0, e0)) => match (e0, *ext) {
                    (true, true) => {}
                    (true, false) => {
                        out.labels.insert(n.clone(), (*a, false));
                    }
                    (false, true) => {}
                    (false, false) => {
                        if a0 != *a {
                            return Err("conflicting labels");
                        }
                    }
                },
            }
        }
        for (a, n) in &f.relocs {
            out.relocs.insert(*a, n.clone());
        }
        for (a, t) in &f.line_text {
            out.line_text.insert(*a, t.clone());
        }
        for (n, s) in &f.spelling {
            out.spelling.entry(n.clone()).or_insert_with(|| s.clone());
        }
    }
    // resolution
    let resolved: Vec<(u16, u16)> = out.relocs.iter().filter_map(|(a, n)| out.labels.get(n).filter(|(_, e)| !*e).map(|(ta, _)| (*a, *ta))).collect();
    for (a, ta) in resolved {
        out.image.insert(a, Some(ta));
        out.relocs.remove(&a);
    }
    Ok(out)
}
