//! Lockstep executor: the real `Simulator` and `RefLc3` consume the same scenario;
//! after every step the complete observable state is compared (DESIGN.md §4.4).
//! Oracles for C08 (core ISA), C09 (user-mode protection), C27 (frames) and
//! C28 (access observer) are evaluated over the same runs; each check enables
//! the oracles that belong to its property.

use std::collections::{BTreeMap, BTreeSet};

use lc3_ensemble::sim::frame::FrameType;

use crate::env::*;
use crate::model::*;
use crate::mworld::*;
use crate::rng::Fp;
use crate::runner::*;

#[derive(Clone, Copy, PartialEq, Eq)]
pub enum Oracle {
    Core,
    Protection,
    Frames,
    Observer,
    Interrupts,
}

pub fn snapshot(w: &mut World, scn: &MScn) -> RefLc3 {
    let _ = w.sim.mmap_internal(SSP_PROBE, lc3_ensemble::sim::InternalRegister::SavedSP);
    let ssp = w.sim.read_mem(SSP_PROBE, omni()).map(|x| x.get()).unwrap_or(0);
    let mem: Vec<RWord> = (0..=0xFFFFu16).map(|a| RWord { v: w.sim.mem[a].get(), init: w.sim.mem[a].is_init() }).collect();
    let mut regs = [RWord::i(0); 8];
    for k in 0..8 {
        let x = w.sim.reg_file[reg(k)];
        regs[k as usize] = RWord { v: x.get(), init: x.is_init() };
    }
    let mut iregs = BTreeMap::new();
    iregs.insert(0xFFFC, IReg::PSR);
    iregs.insert(0xFFFE, IReg::MCR);
    for (a, r) in &scn.iregs {
        iregs.insert(*a, *r);
    }
    iregs.insert(SSP_PROBE, IReg::SavedSP);
    let mut port_owner = BTreeMap::new();
    let mut devs = vec![(3u16, DevModel::Clock)];
    for (i, d) in scn.devs.iter().enumerate() {
        let ix = 4 + i as u16;
        match d {
            DevSpec::Script(s) => {
                for p in &s.ports {
                    port_owner.insert(*p, ix);
                }
                devs.push((ix, DevModel::Script { vect: s.vect }));
            }
            DevSpec::Timer(t) => devs.push((ix, DevModel::Timer { vect: t.vect })),
        }
    }
    RefLc3 {
        mem,
        regs,
        pc: w.sim.pc,
        psr: w.sim.psr().get(),
        saved_sp: RWord::i(ssp),
        mcr: w.sim.mcr().load(std::sync::atomic::Ordering::Relaxed),
        instructions_run: w.sim.instructions_run,
        real_traps: scn.flags.real_traps,
        ignore_priv: scn.flags.ignore_privilege,
        debug_frames: scn.flags.debug_frames,
        depth: w.sim.frame_stack.len(),
        frames: vec![],
        iregs,
        port_owner,
        kb: RefKb { present: scn.kb != IoSpec::Absent, wrapped: matches!(scn.kb, IoSpec::Wrapped { .. }), ..Default::default() },
        disp: RefDisp { present: scn.disp != IoSpec::Absent, wrapped: matches!(scn.disp, IoSpec::Wrapped { .. }), ..Default::default() },
        devs,
        sigs: BTreeMap::new(),
        reads: BTreeSet::new(),
        writes: BTreeMap::new(),
        prefetch: false,
        tick: 0,
    }
}

type V = (String, String);
fn v(class: &str, detail: String) -> V {
    (class.to_string(), detail)
}

fn full_mem_compare(w: &World, m: &RefLc3) -> Result<(), V> {
    for a in 0..=0xFFFFu16 {
        let x = w.sim.mem[a];
        let y = m.mem[a as usize];
        if x.get() != y.v {
            return Err(v("mem-value", format!("mem[x{a:04X}] = x{:04X}, model x{:04X} (full sweep)", x.get(), y.v)));
        }
        if x.is_init() != y.init {
            return Err(v("mem-init", format!("mem[x{a:04X}].is_init() = {}, model {} (full sweep)", x.is_init(), y.init)));
        }
    }
    Ok(())
}

fn aset(s: lc3_ensemble::sim::observer::AccessSet) -> (bool, bool, bool) {
    (s.read(), s.written(), s.modified())
}

pub struct LsOut {
    pub steps: u64,
    pub resyncs: u64,
}

/// Runs the scenario in lockstep. Returns the first violation as (class, step, detail).
pub fn run(scn: &MScn, oracles: &[Oracle], out: &mut Outcome, fp: &mut Fp, tr: &mut Fp) -> Option<Violation> {
    let has = |o: Oracle| oracles.contains(&o);
    let mut w = match guarded(|| build(scn)) {
        Ok(Ok(w)) => w,
        Ok(Err(e)) => {
            out.bump("harness.unbuildable");
            tr.add_str(&e);
            return None;
        }
        Err(p) => return Some(Violation { class: "panic-in-setup".into(), step: 0, detail: p }),
    };
    let mut m = snapshot(&mut w, scn);
    let mut step_no: u64 = 0;
    let mut exec_ok: u64 = 0;
    let mut interesting = false;
    let mut kinds: BTreeSet<&'static str> = BTreeSet::new();
    // C09 history oracle state
    let mut refused = 0u64;
    let mut permitted = 0u64;
    let mut access_kinds: BTreeSet<&'static str> = BTreeSet::new();
    let mut max_depth = 0u64;
    let mut pops_at_zero = 0u64;
    let mut int_frames = 0u64;
    let mut sig_frames = 0u64;
    let mut foreign = false;
    let mut pending_break = false;

    macro_rules! fail {
        ($class:expr, $detail:expr) => {{
            w.host.release_all();
            return Some(Violation { class: $class.to_string(), step: step_no, detail: $detail });
        }};
    }

    'ops: for op in &scn.ops {
        match op {
            Op::Step(n) => {
                for _ in 0..*n {
                    if m.tick >= scn.max_ticks {
                        break 'ops;
                    }
                    step_no += 1;
                    // ---- pre-state for protection oracle
                    let pre_user_checked = !m.privileged() && !m.ignore_priv;
                    let pre_kbq = m.kb.q.len();
                    let pre_psr = m.psr;
                    let pre_mcr = m.mcr;
                    let pre_depth = m.depth;

                    let _ = w.log.take();
                    // two ways of using the observer, chosen per scenario: (a) the host drains it after every
                    // step and nothing else; (b) the last step's marks stay visible to the host accesses
                    // that follow and are cleared before the next step
                    let keep_marks = scn.entropy & 1 == 0;
                    if has(Oracle::Observer) && keep_marks {
                        w.sim.observer.clear();
                    }
                    let res = match guarded(|| w.sim.step_in()) {
                        Ok(r) => r.map_err(|e| err_kind(&e)),
                        Err(p) => fail!("panic-in-step", p),
                    };
                    let recs = w.log.take();
                    // "take" empties the observer whether or not the host reads the iterator to its end: now
                    // and then only the first entry is pulled; nothing may be left behind (that step's sets
                    // are then not compared)
                    let partial_take = has(Oracle::Observer) && (step_no + scn.entropy) % 11 == 3;
                    if partial_take {
                        let first = w.sim.observer.take_mem_accesses().next();
                        let rest = w.sim.observer.take_mem_accesses().count();
                        if rest != 0 {
                            fail!("observer-take-not-clearing", format!("take_mem_accesses() was read up to its first entry ({:?}) and dropped; {rest} entries were still in the observer afterwards", first.map(|(a, _)| a)));
                        }
                        out.bump("probe.partial-take");
                    }
                    let acc: Vec<(u16, lc3_ensemble::sim::observer::AccessSet)> = w.sim.observer.take_mem_accesses().collect();
                    if has(Oracle::Observer) && keep_marks {
                        // a host that inspects the observer after a step sees these marks; untracked host
                        // accesses made before the next step must leave every one of them as it is
                        for (a, s) in &acc {
                            w.sim.observer.update_mem_accesses(*a, *s);
                        }
                    }
                    let mut reg_init = [false; 8];
                    for k in 0..8 {
                        reg_init[k as usize] = w.sim.reg_file[reg(k)].is_init();
                    }
                    let ad = Adopt { res: res.err(), psr: w.sim.psr().get(), pc: w.sim.pc, reg_init };
                    m.reads.clear();
                    m.writes.clear();
                    let mut cur = Cursor::new(&recs);
                    let (mres, info) = match m.step(&mut cur, &ad) {
                        Ok(x) => x,
                        Err(d) => {
                            if has(Oracle::Core) || has(Oracle::Interrupts) || (has(Oracle::Protection) && pre_user_checked) {
                                fail!("device-io", d);
                            }
                            out.bump("harness.foreign-divergence");
                        foreign = true;
                            break 'ops;
                        }
                    };
                    if info.unspecified {
                        // D13: entry sequence pushing into the I/O page — nothing is pinned from here on
                        out.bump("harness.unspecified-d13");
                        foreign = true;
                        break 'ops;
                    }
                    if !cur.done() {
                        if has(Oracle::Core) || has(Oracle::Interrupts) || (has(Oracle::Protection) && pre_user_checked) {
                            fail!("device-io", format!("implementation made device calls the model does not expect: {:?}", &recs[cur.pos..]));
                        }
                        out.bump("harness.foreign-divergence");
                        foreign = true;
                        break 'ops;
                    }
                    if std::env::var_os("VERIF_DEBUG").is_some() {
                        eprintln!("step {step_no}: {} -> impl {:?} pc=x{:04X} psr=x{:04X} | model {:?} pc=x{:04X} psr=x{:04X} R6=x{:04X}/x{:04X}", info.class, res, w.sim.pc, w.sim.psr().get(), mres, m.pc, m.psr, w.sim.reg_file[reg(6)].get(), m.regs[6].v);
                    }
                    kinds.insert(info.class);
                    fp.add_str(info.class);
                    for rc in &recs {
                        tr.add(crate::c16::rec_hash(rc));
                        match rc {
                            Rec::Poll { res: PollRes::Vect(..), .. } => out.bump("fired.irq-raise"),
                            Rec::Read { res: None, held: true, .. } | Rec::Write { res: false, held: true, .. } => out.bump("fired.lock-hold"),
                            Rec::Read { res: None, .. } => out.bump("fired.dev-refuse-read"),
                            Rec::Write { res: false, .. } => out.bump("fired.dev-refuse-write"),
                            Rec::Host { ev: HostEv::PushKeys(_), .. } => out.bump("fired.key-push"),
                            _ => {}
                        }
                    }
                    // ---- result kind
                    let mres_kind: Option<&'static str> = match &mres {
                        MRes::Ok | MRes::Halt => None,
                        MRes::Err(k) => Some(k),
                    };
                    if res.err() != mres_kind {
                        let prot = |k: Option<&str>| matches!(k, Some("AccessViolation") | Some("PrivilegeViolation"));
                        let mine = has(Oracle::Core)
                            || (has(Oracle::Interrupts) && (info.pending_any || res.err() == Some("Interrupt")))
                            || (has(Oracle::Protection) && pre_user_checked && (prot(res.err()) || prot(mres_kind)));
                        if !mine {
                            // the observer's business even so: a step that (by the model) ends before anything is
                            // touched — an external interrupt, a refused fetch — must leave no marks
                            if has(Oracle::Observer) {
                                for (a, st) in &acc {
                                    if *a < 0xFE00 && ((st.read() && !m.reads.contains(a)) || (st.written() && !m.writes.contains_key(a))) {
                                        fail!("observer-extra", format!("step at x{:04X} ({}): the model's step ends with {:?} and touches {:?}/{:?}; the observer recorded x{a:04X} (read={}, written={}) and the call returned {:?}", m.prefetch_pc(), info.class, mres, m.reads, m.writes.keys().collect::<Vec<_>>(), st.read(), st.written(), res));
                                    }
                                }
                            }
                            out.bump("harness.foreign-divergence");
                        foreign = true;
                            break 'ops;
                        }
                        fail!("result-kind", format!("step at x{:04X} ({}) returned {:?}, model says {:?}", m.prefetch_pc(), info.class, res, mres));
                    }
                    if let Some(k) = mres_kind {
                        fp.add_str(k);
                        interesting = true;
                        if k == "Interrupt" {
                            out.bump("fired.irq-external");
                        }
                        // faulting address query
                        let fault = m.prefetch_pc();
                        let got = match guarded(|| w.sim.prefetch_pc()) {
                            Ok(a) => a,
                            Err(p) => fail!("panic-in-prefetch_pc", p),
                        };
                        if k == "Interrupt" {
                            // an external interrupt is reported before anything is fetched: no instruction
                            // faulted, the machine stands at the instruction it will execute on resume
                            if has(Oracle::Core) && (got != w.sim.pc || w.sim.pc != m.pc) {
                                fail!("prefetch-pc", format!("after Err(Interrupt) at pc x{:04X} (model x{:04X}): prefetch_pc() = x{got:04X}", w.sim.pc, m.pc));
                            }
                        }
                        if k != "Interrupt" {
                            if got != fault {
                                fail!("prefetch-pc", format!("after Err({k}) prefetch_pc() = x{got:04X}, faulting instruction is at x{fault:04X}"));
                            }
                            // D7: pc itself may be fault or fault+1
                            if w.sim.pc != fault && w.sim.pc != fault.wrapping_add(1) {
                                fail!("pc-after-error", format!("after Err({k}) pc = x{:04X}, fault at x{fault:04X}", w.sim.pc));
                            }
                            m.prefetch = w.sim.pc == fault;
                            m.pc = w.sim.pc;
                        }
                    } else {
                        exec_ok += 1;
                    }
                    if info.took_interrupt.is_some() {
                        interesting = true;
                        out.bump("probe.irq-taken");
                        if info.nested {
                            out.bump("fired.irq-nested");
                        }
                        if (0x0200..0x0300).contains(&m.frames.last().map(|f| f.caller).unwrap_or(0x3000)) {
                            out.bump("fired.irq-in-trap");
                        }
                    }
                    if info.pending_masked {
                        out.bump("fired.irq-masked");
                    }
                    if info.entered_trap.is_some() || info.exception.is_some() || info.rti || info.mmio {
                        interesting = true;
                    }
                    if info.stack_switch {
                        out.bump("probe.stack-switch");
                    }
                    if info.rti {
                        out.bump(if m.privileged() { "probe.rti-to-supervisor" } else { "probe.rti-to-user" });
                    }

                    // ---- core state
                    let core_div: Option<V> = (|| -> Option<V> {
                        if w.sim.pc != m.pc {
                            return Some(v("pc", format!("after {} at x{:04X}: pc = x{:04X}, model x{:04X}", info.class, m.prefetch_pc(), w.sim.pc, m.pc)));
                        }
                        if w.sim.psr().get() != m.psr {
                            return Some(v("psr", format!("after {}: psr = x{:04X}, model x{:04X}", info.class, w.sim.psr().get(), m.psr)));
                        }
                        for k in 0..8u8 {
                            let x = w.sim.reg_file[reg(k)];
                            let y = m.regs[k as usize];
                            if x.get() != y.v {
                                return Some(v("reg-value", format!("after {} at x{:04X}: R{k} = x{:04X}, model x{:04X}", info.class, m.prefetch_pc(), x.get(), y.v)));
                            }
                            if x.is_init() != y.init {
                                return Some(v("reg-init", format!("after {}: R{k}.is_init() = {}, model {}", info.class, x.is_init(), y.init)));
                            }
                        }
                        let ssp = w.sim.read_mem(SSP_PROBE, omni()).map(|x| x.get()).unwrap_or(0);
                        m.mem[SSP_PROBE as usize] = RWord::i(m.saved_sp.v);
                        if ssp != m.saved_sp.v {
                            return Some(v("saved-sp", format!("after {}: saved SP = x{ssp:04X}, model x{:04X}", info.class, m.saved_sp.v)));
                        }
                        if w.sim.instructions_run != m.instructions_run {
                            return Some(v("instr-count", format!("after {}: instructions_run = {}, model {}", info.class, w.sim.instructions_run, m.instructions_run)));
                        }
                        let mcr = w.sim.mcr().load(std::sync::atomic::Ordering::Relaxed);
                        if mcr != m.mcr {
                            return Some(v("mcr", format!("after {}: MCR = {mcr}, model {}", info.class, m.mcr)));
                        }
                        // memory: every address either side touched, then periodic full sweeps
                        let mut addrs: BTreeSet<u16> = m.writes.keys().copied().collect();
                        addrs.extend(m.reads.iter().copied().filter(|a| *a >= 0xFE00));
                        addrs.extend(acc.iter().map(|(a, _)| *a));
                        for a in addrs {
                            let x = w.sim.mem[a];
                            let y = m.mem[a as usize];
                            if x.get() != y.v || x.is_init() != y.init {
                                return Some(v("mem-value", format!("after {} at x{:04X}: mem[x{a:04X}] = (x{:04X}, init={}), model (x{:04X}, init={})", info.class, m.prefetch_pc(), x.get(), x.is_init(), y.v, y.init)));
                            }
                        }
                        if step_no % 64 == 0 {
                            if let Err((c, d)) = full_mem_compare(&w, &m) {
                                return Some((c, d));
                            }
                        }
                        // devices
                        if m.kb.present && w.host.kb_contents() != m.kb.q.iter().copied().collect::<Vec<u8>>() {
                            return Some(v("kb-queue", format!("keyboard queue {:?}, model {:?}", w.host.kb_contents(), m.kb.q)));
                        }
                        if m.disp.present && w.host.shown() != m.disp.shown() {
                            return Some(v("display", format!("display shows {:?}, model {:?}", w.host.shown(), m.disp.shown())));
                        }
                        None
                    })();
                    if let Some((c, d)) = core_div {
                        let mine = if has(Oracle::Core) {
                            true
                        } else if has(Oracle::Interrupts) {
                            info.pending_any || info.took_interrupt.is_some()
                        } else if has(Oracle::Protection) {
                            (pre_user_checked && (matches!(info.class, "fetch-acv" | "data-acv") || (info.class == "RTI") || c == "kb-queue" || c == "display" || c == "mcr" || c == "psr"))
                                // the mode an RTI returns to is what every later protection decision rests on
                                || (info.rti && c == "psr" && (w.sim.psr().get() ^ m.psr) & 0x8000 != 0)
                        } else {
                            false
                        };
                        if mine {
                            fail!(c, d);
                        }
                        out.bump("harness.foreign-divergence");
                        foreign = true;
                        // the step's own frame / observer oracles are still evaluated (their expected
                        // values were computed from the pre-state, where both sides agreed); the run
                        // ends after them
                        if !(has(Oracle::Observer) || has(Oracle::Frames)) {
                            break 'ops;
                        }
                        pending_break = true;
                    }

                    // ---- C09 protection invariants (independent of the model's execution details)
                    if has(Oracle::Protection) && pre_user_checked {
                        let violating = matches!(info.class, "fetch-acv" | "data-acv") || (info.class == "RTI" && !info.rti);
                        if violating {
                            refused += 1;
                            // (3) no device reached, no internal register changed by the refused access itself
                            if info.exception != Some(0x102) && info.exception != Some(0x100) {
                                fail!("protection-missed", format!("{} in user mode was not turned into an exception", info.class));
                            }
                            // (device state, PSR and MCR are compared with the model in the core block
                            // above; a refused access that reached a device shows up there or in the
                            // device log, and is attributed to this property)
                            let _ = (pre_kbq, pre_psr, pre_mcr);
                            // (3b) a refused step executed nothing: in particular a refused RTI returned from
                            // nothing (the frame depth is the model's: unchanged under virtual traps, plus the
                            // exception entry under real traps)
                            if w.sim.frame_stack.len() != m.depth {
                                fail!("protection-frame-depth", format!("refused {} at x{:04X}: frame depth {} , model {}", info.class, m.prefetch_pc(), w.sim.frame_stack.len(), m.depth));
                            }
                            // (4) observer shows nothing outside user space for a refused virtual step
                            if !m.real_traps {
                                for (a, s) in &acc {
                                    if !(0x3000..0xFE00).contains(a) && (s.read() || s.written()) {
                                        fail!("protection-touched", format!("refused step touched x{a:04X} outside user space"));
                                    }
                                }
                            }
                        } else if mres == MRes::Ok && info.took_interrupt.is_none() && info.exception.is_none() {
                            permitted += 1;
                            // a permitted user-mode instruction never touches supervisor or IO space directly
                            // (trap/exception entry accesses are made by the machine after the mode switch)
                            if info.entered_trap.is_none() {
                                for (a, s) in &acc {
                                    if !(0x3000..0xFE00).contains(a) && (s.read() || s.written()) {
                                        fail!("protection-touched", format!("user-mode {} at x{:04X} touched x{a:04X}", info.class, m.prefetch_pc()));
                                    }
                                }
                            }
                        }
                    }

                    // ---- C27 frames
                    if has(Oracle::Frames) {
                        max_depth = max_depth.max(m.depth);
                        if (info.class == "RET" || info.rti) && pre_depth == 0 {
                            pops_at_zero += 1;
                        }
                        if info.took_interrupt.is_some() {
                            int_frames += 1;
                        }
                        if w.sim.frame_stack.len() != m.depth {
                            fail!("frame-depth", format!("after {} at x{:04X}: frame_stack.len() = {}, model {}", info.class, m.prefetch_pc(), w.sim.frame_stack.len(), m.depth));
                        }
                        match (w.sim.frame_stack.frames(), m.debug_frames) {
                            (None, false) => {}
                            (Some(fs), true) => {
                                if fs.len() != m.frames.len() {
                                    fail!("frame-list-len", format!("frames().len() = {}, model {}", fs.len(), m.frames.len()));
                                }
                                for (i, (f, g)) in fs.iter().zip(m.frames.iter()).enumerate() {
                                    let kind = match f.frame_type {
                                        FrameType::Subroutine => 0,
                                        FrameType::Trap => 1,
                                        FrameType::Interrupt => 2,
                                    };
                                    if f.caller_addr != g.caller || f.callee_addr != g.callee || kind != g.kind {
                                        fail!("frame-entry", format!("frame {i}: (caller x{:04X}, callee x{:04X}, kind {kind}), model (x{:04X}, x{:04X}, {})", f.caller_addr, f.callee_addr, g.caller, g.callee, g.kind));
                                    }
                                    if !g.args_dont_care {
                                        if !g.args.is_empty() || g.fp.is_some() {
                                            sig_frames += 1;
                                        }
                                        let a: Vec<u16> = f.arguments.iter().map(|x| x.get()).collect();
                                        if a != g.args || f.frame_ptr.map(|x| x.get()) != g.fp {
                                            fail!("frame-args", format!("frame {i} (callee x{:04X}): args {:?} fp {:?}, model {:?} {:?}", g.callee, a, f.frame_ptr.map(|x| x.get()), g.args, g.fp));
                                        }
                                    }
                                }
                            }
                            (a, b) => fail!("frame-list-presence", format!("frames() is_some = {}, debug_frames = {b}", a.is_some())),
                        }
                    }

                    // ---- C28 observer
                    if has(Oracle::Observer) && !partial_take {
                        let accm: BTreeMap<u16, lc3_ensemble::sim::observer::AccessSet> = acc.iter().copied().collect();
                        let mut all: BTreeSet<u16> = accm.keys().copied().collect();
                        all.extend(m.reads.iter().copied());
                        all.extend(m.writes.keys().copied());
                        for a in all {
                            let s = accm.get(&a).copied().unwrap_or_default();
                            let mr = m.reads.contains(&a);
                            let mw = m.writes.contains_key(&a);
                            if a >= 0xFE00 {
                                // D9: READ marks on I/O addresses are not pinned. WRITTEN is: a store is a
                                // write of an I/O address exactly when an internal register or a device
                                // accepted it (the environment log says which)
                                if s.written() != mw {
                                    fail!("observer-written-io", format!("after {} at x{:04X}: observer.written(x{a:04X}) = {}, but the store was {} by the register/device mapped there", info.class, m.prefetch_pc(), s.written(), if mw { "accepted" } else { "not accepted" }));
                                }
                                if s.modified() && !mw {
                                    fail!("observer-modified-unwritten", format!("x{a:04X} marked modified but was not written"));
                                }
                                continue;
                            }
                            let changed = m.writes.get(&a).copied().unwrap_or(false);
                            if s.read() != mr {
                                fail!("observer-read", format!("after {} at x{:04X}: observer.read(x{a:04X}) = {}, model {mr}", info.class, m.prefetch_pc(), s.read()));
                            }
                            if s.written() != mw {
                                fail!("observer-written", format!("after {} at x{:04X}: observer.written(x{a:04X}) = {}, model {mw}", info.class, m.prefetch_pc(), s.written()));
                            }
                            if changed && !s.modified() {
                                fail!("observer-modified-missing", format!("x{a:04X} changed value but is not marked modified"));
                            }
                            if s.modified() && !mw {
                                fail!("observer-modified-unwritten", format!("x{a:04X} marked modified but was not written"));
                            }
                        }
                        match info.class {
                            "LD" | "LDR" => {
                                access_kinds.insert("data-read");
                            }
                            "LDI" => {
                                access_kinds.insert("pointer-read");
                            }
                            "ST" | "STR" => {
                                access_kinds.insert("data-write");
                            }
                            "STI" => {
                                access_kinds.insert("pointer-read");
                                access_kinds.insert("data-write");
                            }
                            "TRAP" => {
                                access_kinds.insert("trap-vector+push");
                            }
                            "irq" => {
                                access_kinds.insert("int-vector+push");
                            }
                            "RTI" => {
                                access_kinds.insert("rti-pop");
                            }
                            _ => {
                                access_kinds.insert("fetch");
                            }
                        }
                    }

                    if pending_break {
                        break 'ops;
                    }
                    tr.add(w.sim.pc as u64);
                    tr.add(w.sim.psr().get() as u64);
                    for k in 0..8 {
                        tr.add(w.sim.reg_file[reg(k)].get() as u64);
                    }
                    if mres == MRes::Halt {
                        out.bump("probe.virtual-halt");
                        if scn.ops.iter().any(|o| matches!(o, Op::CallSub(_))) {
                            // the host may still call a subroutine on the halted machine
                            break;
                        }
                        break 'ops;
                    }
                }
            }
            // configuration / host ops are applied to both sides
            Op::SetPc(a) => {
                w.sim.pc = *a;
                m.pc = *a;
                m.prefetch = false;
            }
            Op::SetReg(r, val) => {
                w.sim.reg_file[reg(*r)].set(*val);
                m.regs[*r as usize & 7] = RWord::i(*val);
            }
            Op::Poke(a, val) => {
                w.sim.mem[*a].set(*val);
                m.mem[*a as usize] = RWord::i(*val);
            }
            Op::SetIgnorePriv(b) => {
                w.sim.flags.ignore_privilege = *b;
                m.ignore_priv = *b;
            }
            Op::SetRealTraps(b) => {
                w.sim.flags.use_real_traps = *b;
                m.real_traps = *b;
            }
            Op::SubDef(a, s) => {
                w.sim.frame_stack.set_subroutine_def(*a, sig_to_lib(s));
                m.sigs.insert(*a, s.clone());
            }
            Op::CallSub(a) => {
                // which instruction the machine "stands at" after host-side PC edits is the library's own
                // bookkeeping (its public prefetch_pc()); the frame's caller must agree with that query
                m.prefetch = match guarded(|| w.sim.prefetch_pc()) {
                    Ok(p) => p == w.sim.pc,
                    Err(p) => fail!("panic-in-prefetch_pc", p),
                };
                match guarded(|| w.sim.call_subroutine(*a)) {
                    Ok(_) => {}
                    Err(p) => fail!("panic-in-call_subroutine", p),
                }
                m.host_call_subroutine(*a);
                out.bump("probe.host-call-subroutine");
                if has(Oracle::Frames) {
                    if w.sim.frame_stack.len() != m.depth {
                        fail!("frame-depth", format!("after call_subroutine(x{a:04X}): frame_stack.len() = {}, model {}", w.sim.frame_stack.len(), m.depth));
                    }
                    if let (Some(fs), Some(g)) = (w.sim.frame_stack.frames(), m.frames.last()) {
                        if let Some(f) = fs.last() {
                            if f.caller_addr != g.caller || f.callee_addr != g.callee {
                                fail!("frame-entry", format!("frame pushed by call_subroutine(x{a:04X}): (caller x{:04X}, callee x{:04X}), model (x{:04X}, x{:04X})", f.caller_addr, f.callee_addr, g.caller, g.callee));
                            }
                        }
                    }
                }
            }
            Op::Host(ev) => {
                w.host.apply(ev);
                m.host_apply(ev);
            }
            Op::HostRead { addr, privileged, effects, track } => {
                let _ = w.log.take();
                let obs_before = w.sim.observer.get_mem_accesses(*addr);
                let ctx = lc3_ensemble::sim::MemAccessCtx { privileged: *privileged, strict: false, io_effects: *effects, track_access: *track };
                let r = match guarded(|| w.sim.read_mem(*addr, ctx)) {
                    Ok(r) => r.map(|x| (x.get(), x.is_init())).map_err(|e| err_kind(&e)),
                    Err(p) => fail!("panic-in-read_mem", p),
                };
                let recs = w.log.take();
                let mut cur = Cursor::new(&recs);
                let ad = Adopt { res: None, psr: w.sim.psr().get(), pc: w.sim.pc, reg_init: [true; 8] };
                let mr = match m.host_read(*addr, *privileged, *effects, *track, &mut cur, &ad) {
                    Ok(x) => x,
                    Err(d) => fail!("device-io", d),
                };
                let mr = mr.map(|x| (x.v, x.init)).map_err(|_| "AccessViolation");
                if has(Oracle::Core) && (r != mr || !cur.done()) {
                    fail!("host-read", format!("read_mem(x{addr:04X}) = {r:?}, model {mr:?}"));
                }
                if has(Oracle::Observer) && !*track {
                    out.bump("probe.untracked-host-access");
                    if aset(w.sim.observer.get_mem_accesses(*addr)) != aset(obs_before) && *addr < 0xFE00 {
                        fail!("observer-untracked-recorded", format!("untracked host read of x{addr:04X} changed the observer's marks for it: {:?} -> {:?}", obs_before, w.sim.observer.get_mem_accesses(*addr)));
                    }
                }
            }
            Op::HostWrite { addr, data, privileged, track } => {
                let _ = w.log.take();
                let obs_before = w.sim.observer.get_mem_accesses(*addr);
                let ctx = lc3_ensemble::sim::MemAccessCtx { privileged: *privileged, strict: false, io_effects: true, track_access: *track };
                let r = match guarded(|| w.sim.write_mem(*addr, lc3_ensemble::sim::mem::Word::new_init(*data), ctx)) {
                    Ok(r) => r.map_err(|e| err_kind(&e)),
                    Err(p) => fail!("panic-in-write_mem", p),
                };
                let recs = w.log.take();
                let mut cur = Cursor::new(&recs);
                let ad = Adopt { res: None, psr: w.sim.psr().get(), pc: w.sim.pc, reg_init: [true; 8] };
                let mr = match m.host_write(*addr, *data, *privileged, *track, &mut cur, &ad) {
                    Ok(x) => x.map_err(|_| "AccessViolation"),
                    Err(d) => fail!("device-io", d),
                };
                if has(Oracle::Core) && (r != mr || !cur.done()) {
                    fail!("host-write", format!("write_mem(x{addr:04X}) = {r:?}, model {mr:?}"));
                }
                if has(Oracle::Observer) && !*track {
                    out.bump("probe.untracked-host-access");
                    let s = w.sim.observer.get_mem_accesses(*addr);
                    if *addr < 0xFE00 && aset(s) != aset(obs_before) {
                        fail!("observer-untracked-recorded", format!("untracked host write to x{addr:04X} changed the observer's marks for it: {:?} -> {:?}", obs_before, s));
                    }
                    if s.modified() && !s.written() {
                        fail!("observer-modified-unwritten", format!("x{addr:04X} marked modified but not written after an untracked host write"));
                    }
                }
            }
            _ => {}
        }
    }
    w.host.release_all();
    if has(Oracle::Core) && !foreign {
        if let Err((c, d)) = full_mem_compare(&w, &m) {
            return Some(Violation { class: c, step: step_no, detail: d });
        }
    } else if has(Oracle::Protection) && !foreign {
        // only memory outside user space is this property's business
        for a in (0..0x3000u16).chain(0xFE00..=0xFFFF) {
            let (x, y) = (w.sim.mem[a], m.mem[a as usize]);
            if x.get() != y.v || x.is_init() != y.init {
                return Some(Violation { class: "protected-mem".into(), step: step_no, detail: format!("mem[x{a:04X}] = (x{:04X}, init={}), model (x{:04X}, init={}) at end of run", x.get(), x.is_init(), y.v, y.init) });
            }
        }
    }
    out.sim_time = m.tick as u64;
    // non-triviality per oracle set
    let nontrivial = if has(Oracle::Protection) {
        refused >= 1 && permitted >= 1
    } else if has(Oracle::Frames) {
        max_depth >= 2 && (pops_at_zero >= 1 || int_frames >= 1)
    } else if has(Oracle::Observer) {
        access_kinds.len() >= 3
    } else if has(Oracle::Interrupts) {
        out.stats.get("probe.irq-taken").copied().unwrap_or(0) >= 1
    } else {
        exec_ok >= 5 && interesting
    };
    if nontrivial {
        out.fingerprint = Some(fp.0);
    }
    if has(Oracle::Frames) {
        if pops_at_zero > 0 {
            out.bump("probe.pop-at-depth-0");
        }
        if int_frames > 0 {
            out.bump("probe.interrupt-frame");
        }
        if sig_frames > 0 {
            out.bump("probe.frame-with-signature-args");
        }
    }
    for k in kinds {
        out.bump(match k {
            "irq" => "probe.class.irq",
            "TRAP" => "probe.class.TRAP",
            "RTI" => "probe.class.RTI",
            "fetch-acv" => "probe.class.fetch-acv",
            "data-acv" => "probe.class.data-acv",
            "illegal-opcode" => "probe.class.illegal-opcode",
            "invalid-format" => "probe.class.invalid-format",
            "JSRR" => "probe.class.JSRR",
            "ext-irq" => "probe.class.ext-irq",
            _ => "probe.class.other",
        });
    }
    None
}
