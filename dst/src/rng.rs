//! Self-contained PRNG (xoshiro256** seeded through SplitMix64).
//!
//! Every choice the simulator makes (scenario generation, schedules, faults) is
//! drawn from one of these, seeded from `mix(VERIF_SEED, check-tag, run-index)`.
//! Logging and evidence code never draw from it.

/// Depth of the tier being run (1 = quick; the thorough tier sets 3): generators multiply their
/// size parameters (program length, step budget, history length, file count) by `Rng::deep()`.
/// Set once by `main` before any run; scenarios are stored in replay files, so replay never
/// depends on it.
pub static DEPTH: std::sync::atomic::AtomicU32 = std::sync::atomic::AtomicU32::new(1);

#[derive(Clone, Debug)]
pub struct Rng {
    s: [u64; 4],
}

pub fn splitmix(x: &mut u64) -> u64 {
    *x = x.wrapping_add(0x9E37_79B9_7F4A_7C15);
    let mut z = *x;
    z = (z ^ (z >> 30)).wrapping_mul(0xBF58_476D_1CE4_E5B9);
    z = (z ^ (z >> 27)).wrapping_mul(0x94D0_49BB_1331_11EB);
    z ^ (z >> 31)
}

pub fn fnv(s: &str) -> u64 {
    let mut h: u64 = 0xcbf2_9ce4_8422_2325;
    for b in s.bytes() {
        h ^= b as u64;
        h = h.wrapping_mul(0x100_0000_01b3);
    }
    h
}

/// Derives the per-run seed. Runs share no state, so the set of runs does not
/// depend on worker count or relative speed.
pub fn mix(seed: u64, tag: &str, i: u64) -> u64 {
    let mut x = seed ^ fnv(tag).rotate_left(17) ^ i.wrapping_mul(0xD6E8_FEB8_6659_FD93);
    let a = splitmix(&mut x);
    let b = splitmix(&mut x);
    a ^ b.rotate_left(32)
}

impl Rng {
    /// Size multiplier for this run: 1 in the quick tier; 1, 2 or 4 in the thorough tier.
    pub fn deep(&mut self) -> u32 {
        if DEPTH.load(std::sync::atomic::Ordering::Relaxed) <= 1 { 1 } else { *self.pick(&[1u32, 2, 4]) }
    }

    pub fn new(seed: u64) -> Self {
        let mut x = seed;
        let s = [splitmix(&mut x), splitmix(&mut x), splitmix(&mut x), splitmix(&mut x)];
        Rng { s }
    }
    pub fn next_u64(&mut self) -> u64 {
        let r = self.s[1].wrapping_mul(5).rotate_left(7).wrapping_mul(9);
        let t = self.s[1] << 17;
        self.s[2] ^= self.s[0];
        self.s[3] ^= self.s[1];
        self.s[1] ^= self.s[2];
        self.s[0] ^= self.s[3];
        self.s[2] ^= t;
        self.s[3] = self.s[3].rotate_left(45);
        r
    }
    pub fn u16(&mut self) -> u16 {
        (self.next_u64() >> 32) as u16
    }
    pub fn u8(&mut self) -> u8 {
        (self.next_u64() >> 40) as u8
    }
    /// Uniform in 0..n (n > 0).
    pub fn below(&mut self, n: u64) -> u64 {
        debug_assert!(n > 0);
        // multiply-shift; bias negligible for our n
        ((self.next_u64() as u128 * n as u128) >> 64) as u64
    }
    /// Uniform in lo..=hi.
    pub fn range(&mut self, lo: i64, hi: i64) -> i64 {
        debug_assert!(lo <= hi);
        lo + self.below((hi - lo + 1) as u64) as i64
    }
    pub fn usize(&mut self, lo: usize, hi: usize) -> usize {
        self.range(lo as i64, hi as i64) as usize
    }
    pub fn bool(&mut self) -> bool {
        self.next_u64() >> 63 != 0
    }
    /// True with probability num/den.
    pub fn chance(&mut self, num: u64, den: u64) -> bool {
        self.below(den) < num
    }
    pub fn pick<'a, T>(&mut self, xs: &'a [T]) -> &'a T {
        &xs[self.below(xs.len() as u64) as usize]
    }
    pub fn fork(&mut self) -> Rng {
        Rng::new(self.next_u64())
    }
}

/// Incremental FNV-style hasher for trace hashes and fingerprints (stable across
/// processes; std's DefaultHasher would also be stable but this keeps it explicit).
#[derive(Clone, Copy, Debug)]
pub struct Fp(pub u64);
impl Fp {
    pub fn new() -> Self {
        Fp(0xcbf2_9ce4_8422_2325)
    }
    pub fn add(&mut self, v: u64) {
        let mut x = self.0 ^ v;
        x = x.wrapping_mul(0x100_0000_01b3);
        x ^= x >> 29;
        self.0 = x.wrapping_mul(0x9E37_79B9_7F4A_7C15);
    }
    pub fn add_str(&mut self, s: &str) {
        self.add(fnv(s));
    }
}
