//! World T — toolchain, store and link. "Authors" (tgen) emit source files; a build-graph
//! scheduler applies Assemble / Save / Load / Link / LoadIntoMachine / Query events to a pool of
//! object files, with `SimDisk` (a fault injector) between Save and Load; every Save, Load and
//! Link runs in a simulated *process* (fresh thread under its own entropy seed, hence its own
//! HashMap iteration order). RefObj / ref_link run alongside.
//! Serves C17, C18 (fault-free store round-trips), C19 (storage faults), C20 (link trees),
//! C21 (externals), C22 (linked debug info), C26 (error spans).

use std::collections::BTreeMap;

use lc3_ensemble::asm::encoding::{BinaryFormat, ObjFileFormat, TextFormat};
use lc3_ensemble::asm::{assemble, assemble_debug, AsmErr, ObjectFile};
use lc3_ensemble::parse::parse_ast;
use lc3_ensemble::sim::{SimErr, Simulator};
use serde::{Deserialize, Serialize};

use crate::rng::{Fp, Rng};
use crate::runner::*;
use crate::tgen::{self, FileOpts, GenFile, RefObj, Role};

pub const UNIVERSE: [&str; 6] = ["ALPHA", "Beta", "gamma", "DELTA", "Eps", "ZETA"];

#[derive(Clone, Debug, Serialize, Deserialize, PartialEq)]
pub struct TFile {
    pub opts: FileOpts,
    pub seed: u64,
    pub debug: bool,
}
#[derive(Clone, Debug, Serialize, Deserialize, PartialEq)]
pub enum Fault {
    Truncate(u32),
    FlipBits(Vec<(u32, u8)>),
    ZeroSector { at: u32, len: u32 },
    /// prefix of the new file + suffix of another stored file
    Torn { other: usize, cut: u32 },
    /// the old file (another one) is returned instead
    Lost { other: usize },
    DupRange { at: u32, len: u32 },
    DropRange { at: u32, len: u32 },
    SwapRanges { a: u32, b: u32, len: u32 },
    /// overwrite an 8- or 2-byte little-endian field at this offset
    Field { at: u32, wide: bool, value: u64 },
    InvalidUtf8 { at: u32 },
    /// text format: line-level edits
    DropLine(u32),
    DupLine(u32),
    SwapLines(u32, u32),
    ReplaceInLine { line: u32, from: String, to: String },
    RandomBytes(Vec<u8>),
    /// binary: every line-table chunk's line number := base - k*step (k = chunk index), i.e. several
    /// blocks crowded at the top of the usize range
    LineTableNearMax { base: u64, step: u64 },
    /// binary: move the k-th code block so that it ends `past` words after xFFFF (0 = exactly at the top)
    BlockToTop { k: u32, past: u16 },
    /// binary: the source position recorded for every label := u64::MAX - back (a position no
    /// assembler run produces; only a damaged or hand-made object file carries it)
    LabelSrcNearMax { back: u64 },
    /// binary: the leading numeric field of the k-th chunk (block / label / relocation address, line
    /// number, source length) moved by a small amount: still plausible, no longer consistent
    Nudge { k: u32, delta: i8 },
    /// binary: the first relocation entry now names the address of a relocation entry of another
    /// stored file (two files claiming the same word)
    RelocFrom { other: usize },
    /// binary: a code block of zero words inserted in front of the first chunk
    EmptyBlockAt { addr: u16 },
}
#[derive(Clone, Debug, Serialize, Deserialize, PartialEq)]
pub struct TScn {
    pub entropy: u64,
    pub files: Vec<TFile>,
    /// C19: which file is stored through the faulty disk, in which format, with which faults
    pub victim: usize,
    pub text_format: bool,
    pub faults: Vec<Fault>,
    /// C26 assemble arm: a text-level fault injected into file 0's source
    pub src_fault: Option<(u8, u32)>,
    pub order_seed: u64,
}

pub fn in_proc<T: Send>(ent: u64, f: impl FnOnce() -> T + Send) -> Result<T, String> {
    let r = std::thread::scope(|s| {
        std::thread::Builder::new()
            .stack_size(8 << 20)
            .spawn_scoped(s, move || {
                crate::entropy::set_thread_entropy(ent);
                guarded(f)
            })
            .expect("spawn")
            .join()
    });
    match r {
        Ok(Ok(v)) => Ok(v),
        Ok(Err(p)) => Err(p),
        Err(p) => Err(panic_msg(&p)),
    }
}

pub fn regen(t: &TFile) -> GenFile {
    let mut r = Rng::new(t.seed);
    tgen::gen_file(&mut r, &t.opts)
}
pub fn assemble_file(g: &GenFile, debug: bool) -> Result<ObjectFile, String> {
    let ast = parse_ast(&g.text).map_err(|e| format!("parse error {e:?}"))?;
    if debug { assemble_debug(ast, &g.text) } else { assemble(ast) }.map_err(|e| format!("assemble error {:?}", e.kind))
}

#[derive(Clone, Copy)]
pub struct SetCfg {
    pub exotic: bool,
    pub conflicts: bool,
    pub overlaps: bool,
    pub all_debug: bool,
    pub max_files: usize,
}

/// Generates a set of 1..=max_files files sharing the label universe.
pub fn gen_set(r: &mut Rng, c: SetCfg) -> Vec<TFile> {
    let n = if c.max_files <= 1 { 1 } else { 2 + r.below(c.max_files as u64 - 1) as usize };
    // roles
    let mut roles: Vec<Vec<(String, Role)>> = vec![vec![]; n];
    for name in UNIVERSE.iter().take(3 + r.below(4) as usize) {
        let pattern = r.below(10);
        let definer = r.below(n as u64) as usize;
        for (i, fr) in roles.iter_mut().enumerate() {
            let role = match pattern {
                // resolved: one definer, the others declare it external or ignore it
                0..=4 => {
                    if i == definer {
                        Role::Define
                    } else if r.chance(2, 3) {
                        Role::Extern
                    } else {
                        Role::Absent
                    }
                }
                // nobody defines it
                5 | 6 => {
                    if r.chance(2, 3) {
                        Role::Extern
                    } else {
                        Role::Absent
                    }
                }
                // conflict: two definers
                7 if c.conflicts && n >= 2 => {
                    if i == definer || i == (definer + 1) % n {
                        Role::Define
                    } else {
                        Role::Absent
                    }
                }
                _ => {
                    if i == definer {
                        Role::Define
                    } else {
                        Role::Absent
                    }
                }
            };
            fr.push((name.to_string(), role));
        }
    }
    let plain_set = r.chance(1, 5);
    let mut files: Vec<TFile> = vec![];
    let mut placed: Vec<(u32, u32)> = vec![]; // (start, len) of every block so far, all files
    let mut next_free: u32 = 0x3000 + r.below(0x800) as u32;
    for (i, fr) in roles.into_iter().enumerate() {
        let deep = r.deep() as usize;
        let nb = 1 + r.below(2) as usize + (deep > 1) as usize;
        let mut blocks = vec![];
        let mut own: Vec<(u32, u32)> = vec![];
        for _ in 0..nb {
            let nst = if !blocks.is_empty() && r.chance(1, 12) { 0 } else { (1 + r.below(8) as usize) * deep };
            let mut orig = next_free;
            if c.overlaps && !placed.is_empty() && r.chance(1, 4) {
                let (ps, pl) = *r.pick(&placed);
                orig = match r.below(4) {
                    0 => ps + pl,                      // touching: end == next start
                    1 => (ps + pl).saturating_sub(1), // overlapping by one word
                    2 => ps,                           // identical starts
                    _ => ps.saturating_sub(1),        // ends inside
                };
            }
            // blocks of one file must not overlap each other (the assembler rejects that)
            let worst = nst as u32 * 7 + 1;
            if own.iter().any(|(s, l)| orig < s + l + 1 && *s < orig + worst) || orig + worst >= 0xFE00 {
                orig = next_free;
            }
            blocks.push((orig as u16, nst));
            own.push((orig, worst));
            next_free = next_free.max(orig + worst) + r.below(0x80) as u32;
        }
        let opts = FileOpts { id: i, blocks, shared: fr, exotic: c.exotic, crlf: r.chance(1, 3), ext_place: r.below(4) as u8, max_blkw: 4, pin_first: false, huge: None, pad_comment: 0, plain_head: plain_set, abut: c.exotic };
        let mut opts = opts;
        if i == 0 && r.chance(1, 30) {
            // one block of file 0 (the highest one, so that nothing of this file lies behind it) ends with a huge .blkw
            let n = *r.pick(&[21845u16, 21846, 21850, 30000, 43690]);
            let hb = (0..opts.blocks.len()).max_by_key(|b| opts.blocks[*b].0).unwrap_or(0);
            let end = opts.blocks[hb].0 as u32 + opts.blocks[hb].1 as u32 * 7 + 1 + n as u32;
            if end < 0xF000 && !placed.iter().any(|(s, _)| *s >= opts.blocks[hb].0 as u32) {
                opts.huge = Some((hb, n));
                next_free = next_free.max(end) + r.below(0x80) as u32;
            }
        }
        if !plain_set && r.chance(1, 40) {
            opts.pad_comment = 65_500 + r.below(600) as usize;
        }
        if i == 0 && opts.huge.is_none() && r.chance(1, 8) {
            // a block at the very bottom of memory with a shared label on its first word (address x0000,
            // which is also the placeholder address of external declarations)
            opts.blocks[0].0 = 0x0000;
            opts.pin_first = true;
        }
        if i > 0 && r.chance(1, 10) {
            // a file that emits no words at all: only declarations
            opts.blocks.clear();
            for sh in opts.shared.iter_mut() {
                if sh.1 == Role::Define {
                    sh.1 = Role::Extern;
                }
            }
        }
        let tf = TFile { opts, seed: r.next_u64(), debug: c.all_debug || r.chance(2, 3) };
        let g = regen(&tf);
        for (s, l) in &g.obj.blocks {
            placed.push((*s as u32, *l as u32));
        }
        files.push(tf);
    }
    files
}

// ---- helpers over real object files -----------------------------------------

pub fn image_of(o: &ObjectFile) -> BTreeMap<u16, Option<u16>> {
    o.addr_iter().collect()
}
pub fn labels_of(o: &ObjectFile) -> BTreeMap<String, (u16, bool)> {
    o.symbol_table().map(|s| s.label_iter().map(|(n, a, e)| (n.to_string(), (a, e))).collect()).unwrap_or_default()
}
/// Pending relocations, read from the public text serialization (.LINKER_INFO table).
pub fn relocs_of(o: &ObjectFile) -> BTreeMap<u16, String> {
    let txt = TextFormat::serialize(o);
    let mut out = BTreeMap::new();
    let mut in_sec = false;
    for l in txt.lines() {
        if l.starts_with('.') {
            in_sec = l.trim() == ".LINKER_INFO";
            continue;
        }
        if in_sec {
            let mut it = l.splitn(2, " | ");
            if let (Some(a), Some(n)) = (it.next(), it.next()) {
                if let Ok(a) = u16::from_str_radix(a.trim(), 16) {
                    out.insert(a, n.trim().to_string());
                }
            }
        }
    }
    out
}

fn cmp_obj(o: &ObjectFile, r: &RefObj, what: &str) -> Option<(String, String)> {
    let img = image_of(o);
    if img != r.image {
        let d = r.image.iter().find(|(a, w)| img.get(a) != Some(w)).map(|(a, w)| format!("x{a:04X}: object has {:?}, expected {w:?}", img.get(a))).or_else(|| img.iter().find(|(a, _)| !r.image.contains_key(a)).map(|(a, w)| format!("x{a:04X} = {w:?} is defined in the object but not in the sources"))).unwrap_or_default();
        return Some(("image".into(), format!("{what}: memory image differs: {d}")));
    }
    let lb = labels_of(o);
    if lb != r.labels {
        return Some(("labels".into(), format!("{what}: labels {lb:?}, expected {:?}", r.labels)));
    }
    let rl = relocs_of(o);
    if rl != r.relocs {
        return Some(("relocations".into(), format!("{what}: pending relocations {rl:?}, expected {:?}", r.relocs)));
    }
    None
}

// ---- link trees ------------------------------------------------------------------

#[derive(Clone, Debug)]
pub enum Tree {
    Leaf(usize),
    Node(Box<Tree>, Box<Tree>),
}
fn bracketings(seq: &[usize]) -> Vec<Tree> {
    if seq.len() == 1 {
        return vec![Tree::Leaf(seq[0])];
    }
    let mut out = vec![];
    for k in 1..seq.len() {
        for l in bracketings(&seq[..k]) {
            for r in bracketings(&seq[k..]) {
                out.push(Tree::Node(Box::new(l.clone()), Box::new(r)));
            }
        }
    }
    out
}
fn permutations(n: usize) -> Vec<Vec<usize>> {
    fn go(cur: &mut Vec<usize>, used: &mut Vec<bool>, n: usize, out: &mut Vec<Vec<usize>>) {
        if cur.len() == n {
            out.push(cur.clone());
            return;
        }
        for i in 0..n {
            if !used[i] {
                used[i] = true;
                cur.push(i);
                go(cur, used, n, out);
                cur.pop();
                used[i] = false;
            }
        }
    }
    let mut out = vec![];
    go(&mut vec![], &mut vec![false; n], n, &mut out);
    out
}
pub fn all_trees(n: usize) -> Vec<Tree> {
    permutations(n).iter().flat_map(|p| bracketings(p)).collect()
}
fn tree_str(t: &Tree) -> String {
    match t {
        Tree::Leaf(i) => format!("{i}"),
        Tree::Node(a, b) => format!("({}+{})", tree_str(a), tree_str(b)),
    }
}
fn leaves(t: &Tree, out: &mut Vec<usize>) {
    match t {
        Tree::Leaf(i) => out.push(*i),
        Tree::Node(a, b) => {
            leaves(a, out);
            leaves(b, out)
        }
    }
}

pub struct LinkEnv<'a> {
    pub objs: &'a [ObjectFile],
    pub gens: &'a [GenFile],
    pub ent: u64,
    pub counter: u64,
    pub link_errs: Vec<AsmErr>,
    /// called on every successfully linked node: (object, leaves in link order)
    pub panic: Option<String>,
}
impl<'a> LinkEnv<'a> {
    /// Evaluates a tree; every link in its own simulated process. Ok(None) = a link failed.
    pub fn eval(&mut self, t: &Tree, on_node: &mut dyn FnMut(&ObjectFile, &[usize]) -> Option<(String, String)>) -> Result<Option<ObjectFile>, (String, String)> {
        match t {
            Tree::Leaf(i) => Ok(Some(self.objs[*i].clone())),
            Tree::Node(a, b) => {
                let (Some(oa), Some(ob)) = (self.eval(a, on_node)?, self.eval(b, on_node)?) else { return Ok(None) };
                self.counter += 1;
                let ent = self.ent ^ self.counter.wrapping_mul(0x9E37_79B9_7F4A_7C15);
                match in_proc(ent, move || ObjectFile::link(oa, ob)) {
                    Err(p) => Err(("panic-in-link".into(), format!("linking {}: {p}", tree_str(t)))),
                    Ok(Err(e)) => {
                        self.link_errs.push(e);
                        Ok(None)
                    }
                    Ok(Ok(o)) => {
                        let mut lv = vec![];
                        leaves(t, &mut lv);
                        if let Some(v) = on_node(&o, &lv) {
                            return Err(v);
                        }
                        Ok(Some(o))
                    }
                }
            }
        }
    }
}

/// Source span recorded for every label (through the public query), sorted by name.
fn label_sources_of(o: &ObjectFile) -> Vec<(String, Option<std::ops::Range<usize>>)> {
    let Some(t) = o.symbol_table() else { return vec![] };
    let mut v: Vec<(String, Option<std::ops::Range<usize>>)> = t.label_iter().map(|(n, _, _)| (n.to_string(), t.get_label_source(n))).collect();
    v.sort_by(|a, b| a.0.cmp(&b.0));
    v
}

fn ref_of(gens: &[GenFile], order: &[usize]) -> Result<RefObj, &'static str> {
    let refs: Vec<&RefObj> = order.iter().map(|i| &gens[*i].obj).collect();
    tgen::ref_link(&refs)
}

// ---- per-property oracles at a node ----------------------------------------------

/// C21 at a node: unresolved external fills <=> load refuses; otherwise resolved words hold the address.
fn c21_node(o: &ObjectFile, r: &RefObj, what: &str) -> Option<(String, String)> {
    let mut sim = Simulator::new(lc3_ensemble::sim::SimFlags { machine_init: lc3_ensemble::sim::mem::MachineInitStrategy::Known { value: 0xEEEE }, ..Default::default() });
    let res = match guarded(|| sim.load_obj_file(o)) {
        Ok(r) => r,
        Err(p) => return Some(("panic-in-load".into(), format!("{what}: {p}"))),
    };
    if !r.relocs.is_empty() {
        match res {
            Err(SimErr::UnresolvedExternal(_)) => None,
            Err(e) => Some(("load-wrong-error".into(), format!("{what}: load failed with {e:?}, expected UnresolvedExternal"))),
            Ok(()) => {
                let (a, n) = r.relocs.iter().next().unwrap();
                Some(("unresolved-external-loaded".into(), format!("{what}: the .fill at x{a:04X} refers to external {n} which no linked file defines, but load_obj_file returned Ok and the word holds x{:04X}", sim.mem[*a].get())))
            }
        }
    } else {
        match res {
            Ok(()) => {
                for (a, w) in &r.image {
                    if let Some(v) = w {
                        if sim.mem[*a].get() != *v {
                            return Some(("resolved-word-wrong".into(), format!("{what}: after load mem[x{a:04X}] = x{:04X}, sources and link say x{v:04X}", sim.mem[*a].get())));
                        }
                    }
                }
                None
            }
            // D10: an external that nobody references and nobody defines may still make the load fail
            Err(SimErr::UnresolvedExternal(_)) if r.labels.values().any(|(_, e)| *e) => None,
            Err(e) => Some(("load-refused".into(), format!("{what}: every external reference is resolved but load failed with {e:?}"))),
        }
    }
}

/// C22 at a linked node whose inputs all carry debug symbols.
fn c22_node(o: &ObjectFile, r: &RefObj, what: &str) -> Option<(String, String)> {
    let st = o.symbol_table()?;
    let si = st.source_info()?;
    for (a, text) in &r.line_text {
        let l = match guarded(|| st.rev_lookup_line(*a)) {
            Ok(l) => l,
            Err(p) => return Some(("panic-in-query".into(), format!("{what}: rev_lookup_line(x{a:04X}): {p}"))),
        };
        let Some(l) = l else {
            return Some(("line-missing".into(), format!("{what}: no source line reported for x{a:04X} (source line {text:?})")));
        };
        let got = match guarded(|| si.read_line(l).map(|s| s.to_string())) {
            Ok(g) => g,
            Err(p) => return Some(("panic-in-query".into(), format!("{what}: read_line({l}): {p}"))),
        };
        if got.as_deref() != Some(text.as_str()) {
            return Some(("line-text".into(), format!("{what}: x{a:04X} is reported at line {l} which reads {got:?}; in its own file the line reads {text:?}")));
        }
        if st.lookup_line(l) != Some(*a) {
            return Some(("line-roundtrip".into(), format!("{what}: lookup_line({l}) = {:?}, expected x{a:04X}", st.lookup_line(l))));
        }
    }
    let names: Vec<String> = st.label_iter().map(|(n, _, _)| n.to_string()).collect();
    for n in names {
        let sp = match guarded(|| st.get_label_source(&n)) {
            Ok(s) => s,
            Err(p) => return Some(("panic-in-query".into(), format!("{what}: get_label_source({n}): {p}"))),
        };
        let Some(sp) = sp else {
            return Some(("label-span-missing".into(), format!("{what}: no source span for label {n}")));
        };
        let txt = si.source().get(sp.clone());
        if !txt.is_some_and(|t| t.eq_ignore_ascii_case(&n)) {
            return Some(("label-span".into(), format!("{what}: label {n}: span {sp:?} of the combined source reads {txt:?}")));
        }
    }
    None
}

/// C26: an error's spans can all be queried.
fn c26_err(e: &AsmErr, src: Option<&str>, what: &str) -> Option<(String, String)> {
    use lc3_ensemble::err::Error as _;
    let q = guarded(|| {
        let f = e.span.first();
        let all: Vec<std::ops::Range<usize>> = e.span.iter().cloned().collect();
        let via = e.span().map(|s| s.iter().count());
        let _ = e.help();
        (f, all, via)
    });
    let (first, all, _) = match q {
        Ok(x) => x,
        Err(p) => return Some(("panic-in-span-query".into(), format!("{what}: error {:?}: {p}", e.kind))),
    };
    if let Some(src) = src {
        for s in std::iter::once(&first).chain(all.iter()) {
            if s.start > s.end || s.end > src.len() || !src.is_char_boundary(s.start) || !src.is_char_boundary(s.end) {
                return Some(("span-outside-source".into(), format!("{what}: error {:?} carries span {s:?}, source length {}", e.kind, src.len())));
            }
        }
    }
    None
}

// ===========================================================================

#[derive(Clone, Copy, PartialEq, Eq)]
pub enum Prop {
    C17,
    C18,
    C19,
    C20,
    C21,
    C22,
    C26,
}
pub struct TCheck(pub Prop);

fn serialize_in(o: &ObjectFile, text: bool, ent: u64) -> Result<Vec<u8>, String> {
    let o = o.clone();
    in_proc(ent, move || if text { TextFormat::serialize(&o).into_bytes() } else { BinaryFormat::serialize(&o) })
}
fn deserialize_in(bytes: &[u8], text: bool, ent: u64) -> Result<Option<ObjectFile>, String> {
    let b = bytes.to_vec();
    in_proc(ent, move || if text { TextFormat::deserialize(&String::from_utf8_lossy(&b)) } else { BinaryFormat::deserialize(&b) })
}

fn apply_fault(bytes: &mut Vec<u8>, f: &Fault, others: &[Vec<u8>], text: bool) {
    let n = bytes.len() as u32;
    let clamp = |x: u32| (x.min(n)) as usize;
    match f {
        Fault::Truncate(k) => bytes.truncate(clamp(*k)),
        Fault::FlipBits(v) => {
            for (at, bit) in v {
                if n > 0 {
                    bytes[(*at % n) as usize] ^= 1 << (bit & 7);
                }
            }
        }
        Fault::ZeroSector { at, len } => {
            let s = clamp(*at);
            let e = clamp(at + len);
            for b in &mut bytes[s..e] {
                *b = if text { b' ' } else { 0 };
            }
        }
        Fault::Torn { other, cut } => {
            if let Some(o) = others.get(*other % others.len().max(1)) {
                let c = clamp(*cut);
                let mut v = bytes[..c].to_vec();
                if c < o.len() {
                    v.extend_from_slice(&o[c..]);
                }
                *bytes = v;
            }
        }
        Fault::Lost { other } => {
            if let Some(o) = others.get(*other % others.len().max(1)) {
                *bytes = o.clone();
            }
        }
        Fault::DupRange { at, len } => {
            let s = clamp(*at);
            let e = clamp(at + len);
            let chunk = bytes[s..e].to_vec();
            let mut v = bytes[..e].to_vec();
            v.extend_from_slice(&chunk);
            v.extend_from_slice(&bytes[e..]);
            *bytes = v;
        }
        Fault::DropRange { at, len } => {
            let s = clamp(*at);
            let e = clamp(at + len);
            bytes.drain(s..e);
        }
        Fault::SwapRanges { a, b, len } => {
            let (a, b) = (clamp(*a), clamp(*b));
            let l = *len as usize;
            if a + l <= b && b + l <= bytes.len() {
                for k in 0..l {
                    bytes.swap(a + k, b + k);
                }
            }
        }
        Fault::Field { at, wide, value } => {
            let s = clamp(*at);
            let w = if *wide { 8 } else { 2 };
            if s + w <= bytes.len() {
                bytes[s..s + w].copy_from_slice(&value.to_le_bytes()[..w]);
            }
        }
        Fault::InvalidUtf8 { at } => {
            if n > 0 {
                let s = (*at % n) as usize;
                bytes[s] = 0xFF;
            }
        }
        Fault::DropLine(_) | Fault::DupLine(_) | Fault::SwapLines(..) | Fault::ReplaceInLine { .. } => {
            let s = String::from_utf8_lossy(bytes).to_string();
            let mut lines: Vec<String> = s.split('\n').map(|x| x.to_string()).collect();
            let m = lines.len() as u32;
            if m == 0 {
                return;
            }
            match f {
                Fault::DropLine(k) => {
                    lines.remove((*k % m) as usize);
                }
                Fault::DupLine(k) => {
                    let l = lines[(*k % m) as usize].clone();
                    lines.insert((*k % m) as usize, l);
                }
                Fault::SwapLines(a, b) => lines.swap((*a % m) as usize, (*b % m) as usize),
                Fault::ReplaceInLine { line, from, to } => {
                    // first line at or after `line` that contains `from`
                    let st = (*line % m) as usize;
                    if let Some(i) = (0..lines.len()).map(|k| (st + k) % lines.len()).find(|i| lines[*i].contains(from.as_str())) {
                        lines[i] = lines[i].replacen(from.as_str(), to, 1);
                    }
                }
                _ => {}
            }
            *bytes = lines.join("\n").into_bytes();
        }
        Fault::RandomBytes(b) => *bytes = b.clone(),
        Fault::LineTableNearMax { base, step } => {
            let chunks = binary_chunks(bytes);
            for (k, (p, _)) in chunks.iter().filter(|(_, id)| *id == 2).enumerate() {
                if p + 9 <= bytes.len() {
                    let v = base.wrapping_sub(k as u64 * step);
                    bytes[p + 1..p + 9].copy_from_slice(&v.to_le_bytes());
                }
            }
        }
        Fault::LabelSrcNearMax { back } => {
            let chunks = binary_chunks(bytes);
            for (p, _) in chunks.iter().filter(|(_, id)| *id == 1) {
                if p + 12 <= bytes.len() {
                    bytes[p + 4..p + 12].copy_from_slice(&(u64::MAX - back).to_le_bytes());
                }
            }
        }
        Fault::Nudge { k, delta } => {
            let chunks = binary_chunks(bytes);
            if !chunks.is_empty() {
                let (p, id) = chunks[*k as usize % chunks.len()];
                let wide = matches!(id, 2 | 3);
                if wide && p + 9 <= bytes.len() {
                    let v = u64::from_le_bytes(bytes[p + 1..p + 9].try_into().unwrap()).wrapping_add(*delta as i64 as u64);
                    bytes[p + 1..p + 9].copy_from_slice(&v.to_le_bytes());
                } else if !wide && p + 3 <= bytes.len() {
                    let v = u16::from_le_bytes([bytes[p + 1], bytes[p + 2]]).wrapping_add(*delta as i16 as u16);
                    bytes[p + 1..p + 3].copy_from_slice(&v.to_le_bytes());
                }
            }
        }
        Fault::EmptyBlockAt { addr } => {
            if bytes.len() >= 7 {
                let tail = bytes.split_off(7);
                bytes.extend_from_slice(&[0, *addr as u8, (*addr >> 8) as u8, 0, 0]);
                bytes.extend_from_slice(&tail);
            }
        }
        Fault::RelocFrom { other } => {
            let theirs = &others[*other % others.len().max(1)];
            let src = binary_chunks(theirs).into_iter().find(|(_, id)| *id == 4).map(|(p, _)| p);
            let dst = binary_chunks(bytes).into_iter().find(|(_, id)| *id == 4).map(|(p, _)| p);
            if let (Some(ps), Some(pd)) = (src, dst) {
                if ps + 3 <= theirs.len() && pd + 3 <= bytes.len() {
                    let a = [theirs[ps + 1], theirs[ps + 2]];
                    bytes[pd + 1..pd + 3].copy_from_slice(&a);
                }
            }
        }
        Fault::BlockToTop { k, past } => {
            let chunks = binary_chunks(bytes);
            let code: Vec<usize> = chunks.iter().filter(|(_, id)| *id == 0).map(|(p, _)| *p).collect();
            if !code.is_empty() {
                let p = code[*k as usize % code.len()];
                if p + 5 <= bytes.len() {
                    let len = u16::from_le_bytes([bytes[p + 3], bytes[p + 4]]);
                    let addr = 0u16.wrapping_sub(len).wrapping_add(*past);
                    bytes[p + 1..p + 3].copy_from_slice(&addr.to_le_bytes());
                }
            }
        }
    }
}

/// Binary chunk boundaries (offset of each chunk's identifier byte) of a valid serialization.
fn binary_chunks(b: &[u8]) -> Vec<(usize, u8)> {
    let mut out = vec![];
    let mut p = 7usize;
    while p < b.len() {
        let id = b[p];
        out.push((p, id));
        let rd16 = |o: usize| -> usize { if o + 2 <= b.len() { u16::from_le_bytes([b[o], b[o + 1]]) as usize } else { 0 } };
        let rd64 = |o: usize| -> usize { if o + 8 <= b.len() { u64::from_le_bytes(b[o..o + 8].try_into().unwrap()) as usize } else { 0 } };
        let len = match id {
            0 => 5 + 3 * rd16(p + 3),
            1 => rd64(p + 12).saturating_add(20),
            2 => 11 + 2 * rd16(p + 9),
            3 => rd64(p + 1).saturating_add(9),
            4 => rd64(p + 3).saturating_add(11),
            _ => break,
        };
        p = p.saturating_add(len);
    }
    out
}

fn gen_faults(r: &mut Rng, sample: &[u8], text: bool, nfiles: usize) -> Vec<Fault> {
    let n = sample.len().max(1) as u32;
    let k = 1 + r.below(3);
    let mut v = vec![];
    let chunks = if text { vec![] } else { binary_chunks(sample) };
    let near_boundary = |r: &mut Rng| -> u32 {
        if !chunks.is_empty() && r.chance(2, 3) {
            let (p, _) = *r.pick(&chunks);
            (p as i64 + r.range(-2, 12)).clamp(0, n as i64) as u32
        } else {
            r.below(n as u64 + 1) as u32
        }
    };
    for _ in 0..k {
        let f = match r.below(if text { 16 } else { 12 }) {
            0 | 1 => Fault::Truncate(near_boundary(r)),
            2 => Fault::FlipBits((0..1 + r.below(8)).map(|_| (near_boundary(r), r.below(8) as u8)).collect()),
            3 => Fault::ZeroSector { at: r.below(n as u64) as u32 & !0xF, len: *r.pick(&[16u32, 64, 512]) },
            4 => Fault::Torn { other: r.below(nfiles as u64) as usize, cut: near_boundary(r) },
            5 => Fault::Lost { other: r.below(nfiles as u64) as usize },
            6 => {
                if chunks.len() >= 2 {
                    let i = r.below(chunks.len() as u64 - 1) as usize;
                    Fault::DupRange { at: chunks[i].0 as u32, len: (chunks[i + 1].0 - chunks[i].0) as u32 }
                } else {
                    Fault::DupRange { at: r.below(n as u64) as u32, len: 1 + r.below(40) as u32 }
                }
            }
            7 => {
                if chunks.len() >= 2 {
                    let i = r.below(chunks.len() as u64 - 1) as usize;
                    Fault::DropRange { at: chunks[i].0 as u32, len: (chunks[i + 1].0 - chunks[i].0) as u32 }
                } else {
                    Fault::DropRange { at: r.below(n as u64) as u32, len: 1 + r.below(40) as u32 }
                }
            }
            8 | 9 if !chunks.is_empty() => {
                // grammar-aware field corruption: lengths, addresses, line numbers
                let (p, id) = *r.pick(&chunks);
                let (off, wide) = match id {
                    0 => *r.pick(&[(1usize, false), (3, false)]),
                    1 => *r.pick(&[(1usize, false), (4, true), (12, true)]),
                    2 => *r.pick(&[(1usize, true), (9, false)]),
                    3 => (1, true),
                    _ => *r.pick(&[(1usize, false), (3, true)]),
                };
                let value = *r.pick(&[0u64, 1, 2, 0xFFFF, 0xFFFE, 0xFE00, 0x7FFF, 0x8000, 1 << 63, u64::MAX, u64::MAX - 1, n as u64, n as u64 + 1, usize::MAX as u64 - 3]);
                Fault::Field { at: (p + off) as u32, wide, value }
            }
            10 => Fault::InvalidUtf8 { at: near_boundary(r) },
            11 => Fault::SwapRanges { a: r.below(n as u64) as u32, b: r.below(n as u64) as u32, len: 1 + r.below(16) as u32 },
            12 => Fault::DropLine(r.below(400) as u32),
            13 => Fault::DupLine(r.below(400) as u32),
            14 => Fault::SwapLines(r.below(400) as u32, r.below(400) as u32),
            _ => {
                let (from, to) = *r.pick(&[
                    ("====================", "=="),
                    ("====================", ""),
                    (" | ", "|"),
                    (" | ", " |  | "),
                    (".DEBUG", ".TEXT"),
                    (".SYMBOL", ".LINKER_INFO"),
                    (".LINKER_INFO", ".DEBUG"),
                    ("ADDR", "ADDR "),
                    ("0 | ", "99999999999999999999 | "),
                    ("1 | ", "0 | "),
                    ("30", "FFFF"),
                    ("30", "ZZ"),
                    ("\\", "\\u{110000}"),
                    ("\\", "\\"),
                    ("????", "???"),
                    ("LINE", "LINE | X"),
                    (".TEXT", ".TEXT\n3000\n65535"),
                    (".TEXT", ".TEXT\nFFFF\n2\n0000\n0000"),
                    ("LC-3 OBJ FILE", "LC-3 OBJ FILE\n.DEBUG\n===="),
                    ("LC-3 OBJ FILE", "LC-3 OBJ FILE\n.DEBUG\nx\n===="),
                    ("LC-3 OBJ FILE", "LC-3 OBJ FILE\n.LINKER_INFO\nADDR | LABEL\nFFFF | Q"),
                ]);
                Fault::ReplaceInLine { line: r.below(400) as u32, from: from.into(), to: to.into() }
            }
        };
        v.push(f);
    }
    if !text && r.chance(1, 12) {
        v.push(Fault::LineTableNearMax { base: u64::MAX - r.below(12), step: r.below(6) });
    }
    if !text && r.chance(1, 6) {
        v.push(Fault::Nudge { k: r.below(64) as u32, delta: *r.pick(&[1i8, 2, 3, 5, 8, -1, -2, -3, 16, -16]) });
    }
    if !text && r.chance(1, 10) {
        v.push(Fault::EmptyBlockAt { addr: *r.pick(&[0u16, 0, 1, 0x2FFF, 0x3000, 0xFDFF, 0xFE00, 0xFFFF]) });
    }
    if !text && nfiles > 1 && r.chance(1, 10) {
        v.push(Fault::RelocFrom { other: r.below(nfiles as u64) as usize });
    }
    if !text && r.chance(1, 16) {
        v.push(Fault::LabelSrcNearMax { back: r.below(10) });
    }
    if !text && r.chance(1, 12) {
        v.push(Fault::BlockToTop { k: r.below(4) as u32, past: *r.pick(&[0u16, 0, 1, 2, 0xFFFF]) });
    }
    if r.chance(1, 20) {
        v = vec![Fault::RandomBytes((0..r.below(200)).map(|_| r.u8()).collect())];
    }
    v
}

impl TCheck {
    fn cfg(&self) -> SetCfg {
        match self.0 {
            Prop::C17 => SetCfg { exotic: true, conflicts: false, overlaps: false, all_debug: false, max_files: 3 },
            Prop::C18 => SetCfg { exotic: true, conflicts: false, overlaps: false, all_debug: false, max_files: 3 },
            Prop::C19 => SetCfg { exotic: true, conflicts: false, overlaps: false, all_debug: false, max_files: 3 },
            Prop::C20 => SetCfg { exotic: false, conflicts: true, overlaps: true, all_debug: true, max_files: 4 },
            Prop::C21 => SetCfg { exotic: false, conflicts: false, overlaps: false, all_debug: false, max_files: 3 },
            Prop::C22 => SetCfg { exotic: true, conflicts: false, overlaps: false, all_debug: true, max_files: 3 },
            Prop::C26 => SetCfg { exotic: false, conflicts: true, overlaps: true, all_debug: true, max_files: 3 },
        }
    }

    fn run(&self, s: &TScn, out: &mut Outcome) -> Option<Violation> {
        let p = self.0;
        let mut fp = Fp::new();
        let fail = |step: u64, c: &str, d: String| Some(Violation { class: c.to_string(), step, detail: d });
        let gens: Vec<GenFile> = s.files.iter().map(regen).collect();
        // ---- C26 assemble arm: a faulty source must produce an error with well-formed spans
        if p == Prop::C26 {
            if let Some((kind, at)) = &s.src_fault {
                let src = inject_src_fault(&gens[0].text, *kind, *at);
                out.bump("fired.client-error");
                let ast = match guarded(|| parse_ast(&src)) {
                    Ok(Ok(a)) => a,
                    Ok(Err(_)) => return None, // a parse error is C04's business
                    Err(pm) => return fail(0, "panic-in-parse", pm),
                };
                let res = match guarded(|| assemble_debug(ast, &src)) {
                    Ok(r) => r,
                    Err(pm) => return fail(0, "panic-in-assemble", format!("source fault kind {kind}: {pm}")),
                };
                if let Err(e) = res {
                    fp.add_str(&format!("{:?}", e.kind));
                    if let Some((c, d)) = c26_err(&e, Some(&src), &format!("assembling a source with fault kind {kind}")) {
                        return fail(0, &c, d);
                    }
                    // label errors: the first span covers a spelling of the offending label
                    use lc3_ensemble::asm::AsmErrKind as K;
                    if matches!(e.kind, K::OverlappingLabels | K::CouldNotFindLabel | K::OffsetExternal | K::UndetAddrLabel | K::OffsetNewErr(_)) {
                        let sp = e.span.first();
                        let t = src.get(sp.clone()).unwrap_or("");
                        let is_label = !t.is_empty() && t.chars().all(|c| c.is_alphanumeric() || c == '_') && !t.chars().next().unwrap().is_ascii_digit();
                        if !is_label {
                            return fail(0, "label-span-not-a-label", format!("error {:?}: first span {sp:?} reads {t:?}, which is not a label spelling", e.kind));
                        }
                        // every span of a label error reads some label
                        for sp in e.span.iter() {
                            let t = src.get(sp.clone()).unwrap_or("");
                            let ok = !t.is_empty() && t.chars().all(|c| c.is_alphanumeric() || c == '_') && !t.chars().next().unwrap().is_ascii_digit();
                            if !ok {
                                return fail(0, "label-span-not-a-label", format!("error {:?}: span {sp:?} reads {t:?}, which is not a label spelling", e.kind));
                            }
                        }
                        // the injected fault names the offending label: every span reads a spelling of it
                        let offending: Option<&str> = match kind {
                            0 => Some("DUPL_X"),
                            1 => Some("NOSUCHLABEL_Q"),
                            5 => Some("STRAY_LABEL"),
                            7 => Some("EXT_Q"),
                            10 => Some("LATE_LABEL"),
                            12 => Some("DUP_E"),
                            13 => Some("DUP_F"),
                            14 => Some("FENÊTRE_Q"),
                            15 => Some("CAFÉ"),
                            16 => Some("LATE_É"),
                            _ => None,
                        };
                        // ... provided the error is the one the fault asks for (an inserted statement can also
                        // push an existing reference of a long block out of its offset field, which is then
                        // reported about that other label)
                        let expected_kind = match kind {
                            // (landing outside every block, the inserted label itself is the one without an address)
                            0 | 12 | 13 | 15 => matches!(e.kind, K::OverlappingLabels | K::UndetAddrLabel),
                            1 | 14 => matches!(e.kind, K::CouldNotFindLabel),
                            5 | 10 | 16 => matches!(e.kind, K::UndetAddrLabel),
                            7 => matches!(e.kind, K::OffsetExternal),
                            _ => false,
                        };
                        if let Some(l) = offending.filter(|_| expected_kind) {
                            for sp in e.span.iter() {
                                let t = src.get(sp.clone()).unwrap_or("");
                                if t.to_uppercase() != l {
                                    return fail(0, "label-span-wrong-label", format!("error {:?} about the injected label {l}: span {sp:?} reads {t:?}", e.kind));
                                }
                            }
                        }
                    }
                    out.fingerprint = Some(fp.0);
                    out.bump("probe.assemble-error");
                }
                out.trace = fp.0;
                return None;
            }
        }
        let mut objs: Vec<ObjectFile> = vec![];
        for (i, g) in gens.iter().enumerate() {
            match guarded(|| assemble_file(g, s.files[i].debug)) {
                Ok(Ok(o)) => objs.push(o),
                Ok(Err(_)) => {
                    out.bump("harness.unbuildable");
                    return None;
                }
                Err(pm) => return fail(i as u64, "panic-in-assemble", pm),
            }
        }
        out.sim_time = objs.len() as u64;
        let n = objs.len();
        if p == Prop::C26 && !s.faults.is_empty() {
            let v = s.victim % n;
            let mut bytes = match serialize_in(&objs[v], false, s.entropy ^ 0x26) {
                Ok(b) => b,
                Err(pm) => return fail(v as u64, "panic-in-serialize", pm),
            };
            let stored = vec![bytes.clone()];
            for f in &s.faults {
                apply_fault(&mut bytes, f, &stored, false);
                out.bump(fault_name(f));
            }
            match deserialize_in(&bytes, false, s.entropy ^ 0x62) {
                Ok(Some(o)) => {
                    out.bump("probe.damaged-object-in-link");
                    objs[v] = o;
                }
                Ok(None) => {}
                Err(_) => {
                    // a panic while reading is C19's to report
                    out.bump("harness.foreign-divergence");
                    return None;
                }
            }
        }
        match p {
            Prop::C17 | Prop::C18 => {
                let text = p == Prop::C18;
                let mut r = Rng::new(s.order_seed);
                // history: every fresh assembly, then a random link chain; store round-trip at every node,
                // the reloaded object replaces the original for the rest of the history
                let mut pool: Vec<(ObjectFile, ObjectFile)> = vec![]; // (through the disk, control)
                let mut step = 0u64;
                let mut rt = |o: &ObjectFile, what: &str, step: &mut u64, out: &mut Outcome| -> Result<ObjectFile, Violation> {
                    *step += 1;
                    let e1 = s.entropy ^ step.wrapping_mul(0xA5A5_1234_5678_9ABC);
                    let e2 = e1 ^ 0x5555_AAAA_0F0F_F0F0;
                    let bytes = serialize_in(o, text, e1).map_err(|pm| Violation { class: "panic-in-serialize".into(), step: *step, detail: format!("{what}: {pm}") })?;
                    let back = deserialize_in(&bytes, text, e2).map_err(|pm| Violation { class: "panic-in-deserialize".into(), step: *step, detail: format!("{what}: {pm}") })?;
                    out.bump("fired.entropy-skew");
                    match back {
                        None => Err(Violation { class: "roundtrip-rejected".into(), step: *step, detail: format!("{what}: reading back what was just written returned None") }),
                        Some(b) => {
                            // compared through the crate's PartialEq and, independently of it, through the
                            // public accessors (a weakened PartialEq must not hide a difference)
                            let proj_differs = image_of(&b) != image_of(o)
                                || labels_of(&b) != labels_of(o)
                                || relocs_of(&b) != relocs_of(o)
                                || b.symbol_table().is_some() != o.symbol_table().is_some()
                                || b.symbol_table().map(|t| t.line_iter().collect::<Vec<_>>()) != o.symbol_table().map(|t| t.line_iter().collect::<Vec<_>>())
                                || b.symbol_table().and_then(|t| t.source_info()).map(|x| x.source().to_string()) != o.symbol_table().and_then(|t| t.source_info()).map(|x| x.source().to_string())
                                || label_sources_of(&b) != label_sources_of(o);
                            if &b != o || proj_differs {
                                let why = if image_of(&b) != image_of(o) {
                                    "memory image"
                                } else if labels_of(&b) != labels_of(o) {
                                    "labels / external flags"
                                } else if relocs_of(&b) != relocs_of(o) {
                                    "relocation entries"
                                } else if b.symbol_table().map(|t| t.line_iter().collect::<Vec<_>>()) != o.symbol_table().map(|t| t.line_iter().collect::<Vec<_>>()) {
                                    "line mapping"
                                } else if b.symbol_table().and_then(|t| t.source_info()).map(|x| x.source().to_string()) != o.symbol_table().and_then(|t| t.source_info()).map(|x| x.source().to_string()) {
                                    "source text"
                                } else {
                                    "symbol table presence / label source positions"
                                };
                                return Err(Violation { class: format!("roundtrip-unequal-{}", why.split(' ').next().unwrap()), step: *step, detail: format!("{what}: object read back differs from the one written in its {why}") });
                            }
                            Ok(b)
                        }
                    }
                };
                for (i, o) in objs.iter().enumerate() {
                    let what = format!("file {i} (debug symbols {})", s.files[i].debug);
                    match rt(o, &what, &mut step, out) {
                        Ok(b) => pool.push((b, o.clone())),
                        Err(v) => return Some(v),
                    }
                }
                let mut nontrivial = objs.iter().any(|o| !labels_of(o).is_empty() && (!relocs_of(o).is_empty() || o.symbol_table().is_some_and(|t| t.source_info().is_some()) || image_of(o).len() > 1));
                while pool.len() > 1 {
                    let i = r.below(pool.len() as u64) as usize;
                    let (a, ac) = pool.remove(i);
                    let j = r.below(pool.len() as u64) as usize;
                    let (b, bc) = pool.remove(j);
                    step += 1;
                    let ent = s.entropy ^ step.wrapping_mul(0x1357_9BDF);
                    let (l1, l2) = (in_proc(ent, move || ObjectFile::link(a, b)), in_proc(ent ^ 7, move || ObjectFile::link(ac, bc)));
                    match (l1, l2) {
                        (Ok(Ok(x)), Ok(Ok(c))) => {
                            if x != c {
                                return fail(step, "history-diverges", "linking reloaded objects gives a different result than linking the originals".into());
                            }
                            out.bump("probe.linked-node-roundtrip");
                            nontrivial = true;
                            match rt(&x, "linked node", &mut step, out) {
                                Ok(b) => pool.push((b, c)),
                                Err(v) => return Some(v),
                            }
                        }
                        (Ok(Err(_)), Ok(Err(_))) => break,
                        (Err(pm), _) | (_, Err(pm)) => {
                            // a panic in link is C19/C20 territory; here it only ends the history
                            let _ = pm;
                            out.bump("harness.foreign-divergence");
                            break;
                        }
                        _ => return fail(step, "history-diverges", "link succeeds on one side of the store round-trip and fails on the other".into()),
                    }
                }
                fp.add(step);
                for g in &gens {
                    fp.add_str(&g.text);
                }
                if nontrivial {
                    out.fingerprint = Some(fp.0);
                }
            }
            Prop::C20 | Prop::C21 | Prop::C22 | Prop::C26 => {
                // fresh assemblies first
                for i in 0..n {
                    let what = format!("file {i} (debug symbols {})", s.files[i].debug);
                    if p == Prop::C21 {
                        if let Some((c, d)) = c21_node(&objs[i], &gens[i].obj, &what) {
                            return fail(i as u64, &c, d);
                        }
                    }
                    if p == Prop::C20 && s.files[i].debug {
                        if let Some((c, d)) = cmp_obj(&objs[i], &gens[i].obj, &what) {
                            return fail(i as u64, &format!("assembled-{c}"), d);
                        }
                    }
                }
                if n < 2 {
                    out.fingerprint = Some(1);
                    return None;
                }
                let trees = all_trees(n);
                out.add("fired.link-order", trees.len() as u64);
                // what each object file carries into a link: a file assembled without debug symbols
                // and without externals has no symbol table at all, so it exports no labels
                let eff: Vec<GenFile> = gens
                    .iter()
                    .zip(s.files.iter())
                    .map(|(g, f)| {
                        let mut g = g.clone();
                        if !f.debug && g.obj.labels.values().all(|(_, e)| !*e) {
                            g.obj.labels.clear();
                            g.obj.spelling.clear();
                            g.obj.line_text.clear();
                        }
                        g
                    })
                    .collect();
                let set_ref = ref_of(&eff, &(0..n).collect::<Vec<_>>());
                let all_debug = s.files.iter().all(|f| f.debug);
                let mut successes = 0usize;
                let mut env = LinkEnv { objs: &objs, gens: &gens, ent: s.entropy, counter: 0, link_errs: vec![], panic: None };
                for (ti, t) in trees.iter().enumerate() {
                    let gens_ref = &eff;
                    let files = &s.files;
                    let mut on_node = |o: &ObjectFile, order: &[usize]| -> Option<(String, String)> {
                        let what = format!("link tree {} node over files {order:?}", tree_str(t));
                        let node_debug = order.iter().all(|i| files[*i].debug);
                        let r = match ref_of(gens_ref, order) {
                            Ok(r) => r,
                            Err(why) => {
                                return if p == Prop::C20 && node_debug { Some(("link-accepted".into(), format!("{what}: link succeeded although the files have {why}"))) } else { None };
                            }
                        };
                        match p {
                            Prop::C20 if node_debug => cmp_obj(o, &r, &what).map(|(c, d)| (format!("linked-{c}"), d)),
                            Prop::C21 => {
                                // every node: with or without debug symbols (files without a symbol table
                                // export no labels, see `eff` above)
                                c21_node(o, &r, &what)
                            }
                            Prop::C22 if node_debug => c22_node(o, &r, &what),
                            _ => None,
                        }
                    };
                    match env.eval(t, &mut on_node) {
                        Err((c, d)) => return fail(ti as u64, &c, d),
                        Ok(Some(_)) => successes += 1,
                        Ok(None) => {
                            if p == Prop::C20 && all_debug && set_ref.is_ok() {
                                return fail(ti as u64, "link-rejected", format!("link tree {} failed although blocks are disjoint and no label is defined at two addresses", tree_str(t)));
                            }
                        }
                    }
                }
                if p == Prop::C20 && all_debug && successes != 0 && successes != trees.len() {
                    return fail(0, "order-dependent-outcome", format!("{successes} of {} link trees succeed", trees.len()));
                }
                if p == Prop::C26 {
                    let errs = std::mem::take(&mut env.link_errs);
                    for (k, e) in errs.iter().enumerate() {
                        if let Some((c, d)) = c26_err(e, None, "link error") {
                            return fail(k as u64, &c, d);
                        }
                    }
                    if !errs.is_empty() {
                        out.bump("probe.link-error");
                        out.fingerprint = Some(fp.0 ^ errs.len() as u64 ^ s.order_seed);
                    }
                }
                out.sim_time += env.counter;
                for g in &gens {
                    fp.add_str(&g.text);
                }
                let resolved = gens.iter().any(|g| !g.obj.relocs.is_empty()) && set_ref.as_ref().is_ok_and(|r| r.relocs.len() < gens.iter().map(|g| g.obj.relocs.len()).sum());
                match p {
                    Prop::C20 => {
                        if resolved || set_ref.is_err() {
                            out.fingerprint = Some(fp.0);
                        }
                        if set_ref.is_err() {
                            out.bump("probe.conflict-set");
                        }
                        if resolved {
                            out.bump("probe.external-resolved");
                        }
                    }
                    Prop::C21 => {
                        if gens.iter().any(|g| !g.obj.relocs.is_empty()) {
                            out.fingerprint = Some(fp.0);
                        }
                    }
                    Prop::C22 => {
                        if all_debug && successes > 0 && gens[1..].iter().any(|g| !g.obj.labels.is_empty()) {
                            out.fingerprint = Some(fp.0);
                        }
                    }
                    _ => {}
                }
            }
            Prop::C19 => {
                let text = s.text_format;
                let v = s.victim % n;
                let mut stored: Vec<Vec<u8>> = vec![];
                for (i, o) in objs.iter().enumerate() {
                    match serialize_in(o, text, s.entropy ^ i as u64) {
                        Ok(b) => stored.push(b),
                        Err(pm) => return fail(i as u64, "panic-in-serialize", pm),
                    }
                }
                let mut bytes = stored[v].clone();
                let before = bytes.clone();
                for f in &s.faults {
                    apply_fault(&mut bytes, f, &stored, text);
                    out.bump(fault_name(f));
                }
                let changed = bytes != before;
                let got = match deserialize_in(&bytes, text, s.entropy ^ 0x77) {
                    Ok(g) => g,
                    Err(pm) => return fail(0, "panic-in-deserialize", format!("{} format, faults {:?}: {pm}", if text { "text" } else { "binary" }, s.faults)),
                };
                fp.add(text as u64);
                for f in &s.faults {
                    fp.add_str(fault_name(f));
                }
                fp.add(got.is_some() as u64);
                let Some(surv) = got else {
                    out.bump("probe.rejected");
                    if changed {
                        out.fingerprint = Some(fp.0 ^ crate::rng::fnv(&format!("{:?}", s.faults)));
                    }
                    out.trace = fp.0;
                    return None;
                };
                out.bump("probe.accepted");
                for f in &s.faults {
                    // which fault kinds produce files the reader accepts (a kind stuck at zero is a blind spot)
                    out.bump(match fault_name(f) {
                        "fired.disk-short" => "accepted.disk-short",
                        "fired.disk-flip" => "accepted.disk-flip",
                        "fired.disk-zero" => "accepted.disk-zero",
                        "fired.disk-torn" => "accepted.disk-torn",
                        "fired.disk-lost" => "accepted.disk-lost",
                        "fired.disk-dup" => "accepted.disk-dup",
                        "fired.disk-drop" => "accepted.disk-drop",
                        "fired.disk-swap" => "accepted.disk-swap",
                        "fired.disk-field" => "accepted.disk-field",
                        "fired.disk-utf8" => "accepted.disk-utf8",
                        _ => "accepted.disk-random",
                    });
                }
                let ctx = format!("survivor of {} format faults {:?}", if text { "text" } else { "binary" }, s.faults);
                // the survivor continues through the world; nothing may unwind
                let steps: Vec<(&str, Box<dyn FnOnce() + Send + '_>)> = vec![
                    ("reserialize-binary", Box::new(|| {
                        let b = BinaryFormat::serialize(&surv);
                        let _ = BinaryFormat::deserialize(&b);
                    })),
                    ("reserialize-text", Box::new(|| {
                        let t = TextFormat::serialize(&surv);
                        let _ = TextFormat::deserialize(&t);
                    })),
                    ("link-with-clean(a,b)", Box::new(|| {
                        if let Ok(o) = ObjectFile::link(surv.clone(), objs[(v + 1) % n].clone()) {
                            let _ = TextFormat::serialize(&o);
                        }
                    })),
                    ("link-with-clean(b,a)", Box::new(|| {
                        if let Ok(o) = ObjectFile::link(objs[(v + 1) % n].clone(), surv.clone()) {
                            let _ = BinaryFormat::serialize(&o);
                        }
                    })),
                    ("link-with-itself", Box::new(|| {
                        let _ = ObjectFile::link(surv.clone(), surv.clone());
                    })),
                    ("link-with-original", Box::new(|| {
                        let _ = ObjectFile::link(surv.clone(), objs[v].clone());
                        let _ = ObjectFile::link(objs[v].clone(), surv.clone());
                    })),
                    ("link-with-conflicting-twin", Box::new(|| {
                        // the victim's own source assembled at shifted origins: same labels, different
                        // addresses, so the link fails with a label conflict whose spans are built from
                        // whatever positions the (possibly damaged) survivor carries
                        let mut tf = s.files[v].clone();
                        for b in tf.opts.blocks.iter_mut() {
                            b.0 = if b.0 < 0x9000 { b.0 + 0x5000 } else { b.0 - 0x4000 };
                        }
                        tf.debug = true;
                        if let Ok(twin) = assemble_file(&regen(&tf), true) {
                            for (x, y) in [(surv.clone(), twin.clone()), (twin, surv.clone())] {
                                if let Err(e) = ObjectFile::link(x, y) {
                                    use lc3_ensemble::err::Error as _;
                                    let _ = e.span.first();
                                    let _ = e.span.iter().count();
                                    let _ = e.span().map(|sp| sp.first());
                                    let _ = e.help();
                                }
                            }
                        }
                    })),
                    ("load-and-run", Box::new(|| {
                        let mut sim = Simulator::new(lc3_ensemble::sim::SimFlags { machine_init: lc3_ensemble::sim::mem::MachineInitStrategy::Known { value: 0 }, ..Default::default() });
                        if sim.load_obj_file(&surv).is_ok() {
                            let _ = sim.run_with_limit(100);
                            let _ = sim.prefetch_pc();
                        }
                    })),
                    ("symbol-queries", Box::new(|| {
                        if let Some(st) = surv.symbol_table() {
                            let names: Vec<String> = st.label_iter().map(|(n, _, _)| n.to_string()).collect();
                            for nm in &names {
                                let _ = st.lookup_label(nm);
                                let _ = st.get_label_source(nm);
                            }
                            let _ = st.rev_lookup_label(0x3000);
                            for (l, a) in st.line_iter().take(200) {
                                let _ = st.lookup_line(l);
                                let _ = st.rev_lookup_line(a);
                            }
                            for a in [0u16, 0x3000, 0xFDFF, 0xFFFF] {
                                let _ = st.rev_lookup_line(a);
                            }
                            if let Some(si) = st.source_info() {
                                let c = si.count_lines();
                                for l in [0usize, 1, c.saturating_sub(1), c, c + 1, usize::MAX] {
                                    let _ = si.read_line(l);
                                    let _ = si.line_span(l);
                                }
                                for ix in [0usize, 1, si.source().len(), si.source().len() + 5] {
                                    let _ = si.get_pos_pair(ix);
                                }
                            }
                            let _ = format!("{st:?}");
                        }
                        let _ = surv.addr_iter().count();
                    })),
                ];
                for (k, (name, f)) in steps.into_iter().enumerate() {
                    if let Err(pm) = in_proc(s.entropy ^ (k as u64 + 0x100), f) {
                        return fail(k as u64 + 1, &format!("panic-in-{name}"), format!("{ctx}: {pm}"));
                    }
                }
                out.bump("probe.accepted-and-used");
                if changed {
                    out.fingerprint = Some(fp.0 ^ crate::rng::fnv(&format!("{:?}", s.faults)));
                }
            }
        }
        out.trace = fp.0;
        None
    }
}

fn fault_name(f: &Fault) -> &'static str {
    match f {
        Fault::Truncate(_) => "fired.disk-short",
        Fault::FlipBits(_) => "fired.disk-flip",
        Fault::ZeroSector { .. } => "fired.disk-zero",
        Fault::Torn { .. } => "fired.disk-torn",
        Fault::Lost { .. } => "fired.disk-lost",
        Fault::DupRange { .. } | Fault::DupLine(_) => "fired.disk-dup",
        Fault::DropRange { .. } | Fault::DropLine(_) => "fired.disk-drop",
        Fault::SwapRanges { .. } | Fault::SwapLines(..) => "fired.disk-swap",
        Fault::Field { .. } | Fault::ReplaceInLine { .. } => "fired.disk-field",
        Fault::InvalidUtf8 { .. } => "fired.disk-utf8",
        Fault::RandomBytes(_) => "fired.disk-random",
        Fault::LineTableNearMax { .. } | Fault::BlockToTop { .. } | Fault::LabelSrcNearMax { .. } | Fault::Nudge { .. } | Fault::RelocFrom { .. } | Fault::EmptyBlockAt { .. } => "fired.disk-field",
    }
}

/// Source-level faults for C26's assemble arm.
fn inject_src_fault(src: &str, kind: u8, at: u32) -> String {
    let mut lines: Vec<String> = src.lines().map(|s| s.to_string()).collect();
    let n = lines.len().max(1);
    let k = at as usize % n;
    let find = |lines: &Vec<String>, pat: &str, from: usize| (0..lines.len()).map(|i| (from + i) % lines.len()).find(|i| lines[*i].to_lowercase().contains(pat));
    match kind {
        0 => {
            // duplicate label in another case, at a different address
            lines.insert(k.max(1), "dupl_x .fill 1".into());
            lines.insert((k + 2).min(lines.len()), "DUPL_X .fill 2".into());
        }
        1 => lines.insert(k.max(1), "    LD R1, NOSUCHLABEL_Q".into()),
        2 => {
            if let Some(i) = find(&lines, ".end", k) {
                lines.remove(i);
            }
        }
        3 => lines.insert(k, ".end".into()),
        4 => lines.insert(k.max(1), ".orig x4000".into()),
        5 => lines.insert(0, "STRAY_LABEL ADD R0, R0, #1".into()),
        6 => {
            // offset one past the field: a label 300 words away used by a 9-bit offset
            lines.insert(1, "    LD R1, FARAWAY_Q".into());
            lines.insert(2, "    .blkw 300".into());
            lines.insert(3, "FARAWAY_Q .fill 0".into());
        }
        7 => {
            lines.insert(0, ".external EXT_Q".into());
            lines.insert(k.max(2), "    LEA R0, ext_q".into());
        }
        8 => lines.push(".orig xFDFF\n.fill 1\n.fill 2\n.end".into()),
        9 => {
            // overlapping blocks inside one file
            lines.push(".orig x3000\n.blkw 9\n.end\n.orig x3004\n.fill 7\n.end".into());
        }
        10 => lines.push("LATE_LABEL".into()),
        12 => {
            // declared external first, then defined locally at a non-zero address
            lines.insert(0, format!("{}.external Dup_E", if at % 2 == 0 { "" } else { "   " }));
            if let Some(i) = find(&lines, ".end", k) {
                lines.insert(i, "dup_e .fill 3".into());
            }
        }
        13 => {
            // defined locally first, declared external afterwards
            if let Some(i) = find(&lines, ".end", k) {
                lines.insert(i, "Dup_F .fill 3".into());
            }
            lines.push(".external DUP_F".into());
        }
        // labels with non-ASCII characters (the lexer accepts them after an ASCII first character):
        // byte length != character count
        14 => lines.insert(k.max(1), "    LD R1, FENÊTRE_Q".into()),
        15 => {
            lines.insert(k.max(1), "CAFÉ .fill 1".into());
            lines.insert((k + 2).min(lines.len()), "CAFÉ .fill 2".into());
        }
        16 => lines.push("LATE_É".into()),
        // three labels stacked on one statement outside every block
        17 => lines.push("LA_Q\nLB_Q\nLC_Q .fill 1".into()),
        // ... and exactly two
        18 => lines.push("LA_Q\nLB_Q .fill 1".into()),
        _ => lines.push(".orig xFFF0\n.blkw 32\n.end".into()),
    }
    lines.join("\n")
}

impl Check for TCheck {
    type Scn = TScn;
    fn id(&self) -> &'static str {
        match self.0 {
            Prop::C17 => "C17",
            Prop::C18 => "C18",
            Prop::C19 => "C19",
            Prop::C20 => "C20",
            Prop::C21 => "C21",
            Prop::C22 => "C22",
            Prop::C26 => "C26",
        }
    }
    fn meta(&self) -> Meta {
        let rule: &'static str = match self.0 {
            Prop::C17 => "Build histories: 1-3 generated files (several .orig blocks, .blkw, .stringz, mixed-case labels, .external before/between/after its uses and inside/outside blocks, .fill of externals, with and without debug symbols) are assembled and linked in a scheduler-chosen order; at every node (fresh assembly, partial link, full link) the object is written in the binary format by one simulated process and read back by another with a different entropy seed (different HashMap iteration order for label and relocation chunks); deserialize(serialize(o)) == Some(o) by the crate's PartialEq, the reloaded object replaces the original, and every later link must equal the control history that never touched the disk. Non-trivial: an object with labels and (relocation entries or debug symbols or >1 word).",
            Prop::C18 => "As C17 for the text format, with sources whose comments carry quotes, backslashes, tabs, ' | ', '====', leading '#'/'.', control and non-ASCII characters, CRLF line ends, empty and whitespace-only lines, and no trailing newline. The contribution of simulation here is the placement of store/load at arbitrary nodes of link histories (linked objects have concatenated sources, merged line maps, resolved and pending relocations side by side).",
            Prop::C19 => "Histories as C17/C18 with SimDisk faults between Save and Load (1-3 per file): short write at any byte (biased to chunk boundaries +-), torn write (prefix of the new file + suffix of another stored file), lost write (another file returned), bit flips, zeroed sectors, duplicated/dropped/swapped chunks or lines, grammar-aware field corruption (u16/u64 lengths and addresses set to 0,1,len+-1,2^16-1,2^63,2^64-1..., section headers and dividers rewritten, tables rewired), invalid UTF-8, fully random bytes. deserialize must return None or Some without unwinding; a survivor continues through re-serialization in both formats (and re-read), link with a clean file in both orders, with itself and with its original, load_obj_file + 100 steps, and every symbol/source query — each in its own simulated process under catch_unwind. Non-trivial: the fault changed the bytes.",
            Prop::C20 => "Sets of 2-4 files with symbol tables sharing a 6-name label universe (defined in one file and external elsewhere; external everywhere; defined in two files = conflict) and blocks that are disjoint, touching, overlapping by one word or starting at the same address. For each set every link tree (all orders x all bracketings: 2/12/120) is evaluated, each link in its own simulated process. All trees succeed iff the reference linker says the set is linkable; every node of every tree equals the reference union-with-resolution (image, labels with external flags, pending relocations from the .LINKER_INFO table). Non-trivial: an external resolved by another file, or a conflict.",
            Prop::C21 => "At every fresh assembly (with and without debug symbols; .external before, between, after its uses; inside and outside blocks) and at every node of every link tree: if some .fill names an external nobody linked so far defines, load_obj_file fails with UnresolvedExternal; otherwise it succeeds and every formerly-external .fill holds the defining address in simulator memory. Non-trivial: the set has at least one external .fill.",
            Prop::C22 => "At every successfully linked node of every link tree over 2-3 files with debug symbols: for each address with a statement line in some input, rev_lookup_line/read_line give that input line's trimmed text and lookup_line maps back; for each label, get_label_source (queried with the listed spelling) is a span of the combined source that reads the label ignoring case. Non-trivial: >=2 inputs and a label in a file linked second or later.",
            Prop::C26 => "Link arm: every error returned by any link of any tree over sets with conflicts and overlapping blocks: span.first(), span.iter(), Error::span(), help() under catch_unwind; in 1/6 of the sets one file first goes through a simulated disk that rewrites the source positions of its labels / the line numbers of its line table to values near usize::MAX (damaged-object arm): the link must still return a queryable error, not panic. Assemble arm (stateless, disclosed): a source fault (duplicate label in another case, undefined label, missing/extra/nested .orig/.end, statement or label outside a block, offset past the field, external in a PC-relative operand, block into I/O space, overlapping or wrapping blocks) injected into a generated file; every span lies inside the source on character boundaries; for label errors the first span reads a label. Non-trivial: an error was produced.",
        };
        Meta {
            rule,
            components_real: &["parser", "assembler (both passes)", "ObjectFile::link", "BinaryFormat / TextFormat serialize+deserialize", "SymbolTable / SourceInfo queries", "Simulator::load_obj_file"],
            components_stub: &["tgen authors + RefObj/ref_link", "SimDisk fault injector", "simulated processes (fresh thread + entropy seed per Save/Load/Link)"],
            assumptions: &["sources are well-formed by construction (except C26's injected faults)"],
            level: "exploration",
            enumerated: "C20/C21/C22/C26: all link trees (orders x bracketings) of each generated set",
        }
    }
    fn quick_runs(&self) -> u64 {
        match self.0 {
            Prop::C19 => 10_000,
            Prop::C20 | Prop::C21 | Prop::C22 => 1_500,
            _ => 4_000,
        }
    }
    fn entropy(&self, s: &TScn) -> u64 {
        s.entropy
    }
    fn generate(&self, r: &mut Rng, _t: Tier, _i: u64) -> TScn {
        let files = gen_set(r, self.cfg());
        let mut s = TScn { entropy: r.next_u64(), files, victim: 0, text_format: false, faults: vec![], src_fault: None, order_seed: r.next_u64() };
        match self.0 {
            Prop::C19 => {
                s.victim = r.below(s.files.len() as u64) as usize;
                s.text_format = r.bool();
                // faults are drawn against a sample serialization of the victim (for boundary bias)
                // (in a simulated process: chunk order in the sample depends on hash order, and
                // generation must not depend on which worker thread happens to run it)
                let g = regen(&s.files[s.victim]);
                let (dbg, txt) = (s.files[s.victim].debug, s.text_format);
                let sample = in_proc(s.entropy, move || assemble_file(&g, dbg).ok().map(|o| if txt { TextFormat::serialize(&o).into_bytes() } else { BinaryFormat::serialize(&o) }).unwrap_or_default()).unwrap_or_default();
                s.faults = gen_faults(r, &sample, s.text_format, s.files.len());
            }
            Prop::C26 => {
                if r.chance(1, 2) {
                    s.src_fault = Some((r.below(19) as u8, r.below(64) as u32));
                    s.files.truncate(1);
                } else if r.chance(1, 3) {
                    // damaged-object arm: one file of the set went through a disk that rewrote the
                    // positions recorded in its symbol table; link errors must still be queryable
                    s.victim = r.below(s.files.len() as u64) as usize;
                    s.faults = match r.below(3) {
                        0 => vec![Fault::LabelSrcNearMax { back: r.below(10) }],
                        1 => vec![Fault::LineTableNearMax { base: u64::MAX - r.below(12), step: r.below(6) }],
                        _ => vec![Fault::LabelSrcNearMax { back: r.below(10) }, Fault::LineTableNearMax { base: u64::MAX - r.below(12), step: r.below(6) }],
                    };
                }
            }
            _ => {}
        }
        s
    }
    fn execute(&self, s: &TScn) -> Outcome {
        let mut out = Outcome::default();
        let v = self.run(s, &mut out);
        out.violation = v;
        out
    }
    fn shrink(&self, s: &TScn) -> Vec<TScn> {
        let mut c = vec![];
        if s.files.len() > 1 && s.src_fault.is_none() {
            for i in (0..s.files.len()).rev() {
                if self.0 == Prop::C19 && i == s.victim % s.files.len() {
                    continue;
                }
                let mut t = s.clone();
                t.files.remove(i);
                if t.victim > i {
                    t.victim -= 1;
                }
                c.push(t);
            }
        }
        for i in 0..s.faults.len() {
            let mut t = s.clone();
            t.faults.remove(i);
            c.push(t);
        }
        for (i, f) in s.files.iter().enumerate() {
            // fewer statements per block, fewer blocks, fewer shared labels
            for (b, (_, n)) in f.opts.blocks.iter().enumerate() {
                if *n > 1 {
                    let mut t = s.clone();
                    t.files[i].opts.blocks[b].1 = n - 1;
                    c.push(t);
                }
            }
            if f.opts.blocks.len() > 1 {
                let mut t = s.clone();
                t.files[i].opts.blocks.pop();
                c.push(t);
            }
            for k in 0..f.opts.shared.len() {
                if f.opts.shared[k].1 != Role::Absent {
                    let mut t = s.clone();
                    t.files[i].opts.shared[k].1 = Role::Absent;
                    c.push(t);
                }
            }
            if f.opts.exotic {
                let mut t = s.clone();
                t.files[i].opts.exotic = false;
                c.push(t);
            }
            if f.opts.crlf {
                let mut t = s.clone();
                t.files[i].opts.crlf = false;
                c.push(t);
            }
        }
        c
    }
}
