//! C34 — timer interrupts follow the configured interval.
//! Direct arm: the real TimerDevice polled by the harness through poll histories with
//! toggles, resets and range changes. Machine arm: the timer attached to a simulator
//! running a counting loop; interrupt entries are observed at instruction boundaries.

use lc3_ensemble::sim::device::{ExternalDevice, TimerDevice};
use serde::{Deserialize, Serialize};

use crate::genr::gen_handler;
use crate::mworld::*;
use crate::rng::{Fp, Rng};
use crate::runner::*;

#[derive(Clone, Debug, Serialize, Deserialize, PartialEq)]
pub enum TOp {
    Poll(u32),
    /// poll until get_remaining() == k (at most cap polls), then apply the next op at that instant
    PollUntilRemaining(u32, u32),
    Enable(bool),
    IoReset,
    ResetRemaining,
    SetRange(u32, u32, bool),
    SetExact(u32),
    /// `set_range(get_range())`: a no-op by contract
    Reapply,
}
#[derive(Clone, Debug, Serialize, Deserialize, PartialEq)]
pub struct C34Scn {
    pub entropy: u64,
    pub seed: Option<u64>,
    pub lo: u32,
    pub hi: u32,
    pub incl: bool,
    pub vect: u8,
    pub prio: u8,
    pub ops: Vec<TOp>,
    /// machine arm: attach to a simulator instead of polling directly
    pub machine: bool,
    /// machine arm: an external-interrupt source registered *before* the timer raises at these of
    /// its polls (the run is resumed after each `SimErr::Interrupt`)
    #[serde(default)]
    pub ext_ticks: Vec<u32>,
    /// machine arm: a thread panics while holding the timer's mutex at this boundary
    #[serde(default)]
    pub poison_at: Option<u32>,
    /// ranges are handed over as a pair of bounds with an excluded start, `(Excluded(lo-1), ..)`,
    /// which denotes the same set as `lo..`
    #[serde(default)]
    pub excl_start: bool,
}
pub struct C34;

fn bounds(lo: u32, hi: u32, incl: bool) -> (std::ops::Bound<u32>, std::ops::Bound<u32>) {
    use std::ops::Bound::*;
    (Excluded(lo - 1), if incl { Included(hi) } else { Excluded(hi) })
}

fn mk(s: &C34Scn) -> TimerDevice {
    if s.excl_start && s.lo >= 1 {
        return TimerDevice::new(s.seed, bounds(s.lo, s.hi, s.incl), s.vect, s.prio);
    }
    if s.incl {
        TimerDevice::new(s.seed, s.lo..=s.hi, s.vect, s.prio)
    } else {
        TimerDevice::new(s.seed, s.lo..s.hi, s.vect, s.prio)
    }
}

/// Observation window state: polls since the window opened / since the last interrupt.
struct Win {
    lo: u32,
    max: u32, // inclusive maximum of the range
    open: bool,
    since_open: u32,
    since_irq: Option<u32>,
    irqs: u32,
}
impl Win {
    fn reopen(&mut self) {
        self.since_open = 0;
        self.since_irq = None;
        self.irqs = 0;
    }
}

fn direct(s: &C34Scn, out: &mut Outcome) -> Option<Violation> {
    let mut t = mk(s);
    let mut twin = mk(s); // same seed (or same ambient entropy position is NOT guaranteed for None: see below)
    let twin_ok = s.seed.is_some();
    let range_max = |_lo: u32, hi: u32, incl: bool| if incl { hi } else { hi - 1 };
    let mut w = Win { lo: s.lo, max: range_max(s.lo, s.hi, s.incl), open: false, since_open: 0, since_irq: None, irqs: 0 };
    let mut enabled = false;
    let mut polls_total = 0u64;
    let mut max_irqs_in_window = 0u32;
    let mut fp = Fp::new();
    let fail = |i: usize, c: &str, d: String| Some(Violation { class: c.to_string(), step: i as u64, detail: d });
    // ranges containing 0 are outside the gap clause (DESIGN.md §6 C34)
    let gap_ok = |w: &Win| w.lo >= 1;
    let mut poll = |t: &mut TimerDevice, twin: &mut TimerDevice, w: &mut Win, enabled: bool, i: usize| -> Option<Violation> {
        let r = t.poll_interrupt();
        let r2 = twin.poll_interrupt();
        if twin_ok && r.is_some() != r2.is_some() {
            return fail(i, "seed-not-reproducible", "two timers built with the same seed and driven by the same history disagree".into());
        }
        if !enabled {
            if r.is_some() {
                return fail(i, "disabled-timer-fired", format!("poll returned an interrupt while enabled == false (remaining now {})", t.get_remaining()));
            }
            return None;
        }
        w.since_open += 1;
        match r {
            Some(int) => {
                if int.priority() != Some(s.prio.min(7)) {
                    return fail(i, "wrong-priority", format!("interrupt priority {:?}, configured {}", int.priority(), s.prio));
                }
                if gap_ok(w) {
                    match w.since_irq {
                        Some(g) => {
                            if g < w.lo || g > w.max {
                                return fail(i, "gap-out-of-range", format!("{g} polls strictly between consecutive interrupts, range {}..={}", w.lo, w.max));
                            }
                        }
                        None => {
                            if w.since_open > w.max + 1 {
                                return fail(i, "first-interrupt-late", format!("first interrupt at poll {} after the window opened, range maximum {}", w.since_open, w.max));
                            }
                        }
                    }
                }
                w.since_irq = Some(0);
                w.irqs += 1;
            }
            None => {
                if let Some(g0) = w.since_irq {
                    let g = g0 + 1;
                    w.since_irq = Some(g);
                    if gap_ok(w) && g > w.max {
                        return fail(i, "gap-out-of-range", format!("more than {} polls since the last interrupt without a new one", w.max));
                    }
                } else if gap_ok(w) && w.since_open > w.max + 1 {
                    return fail(i, "first-interrupt-late", format!("{} polls after the window opened without an interrupt, range maximum {}", w.since_open, w.max));
                }
            }
        }
        None
    };
    for (i, op) in s.ops.iter().enumerate() {
        match op {
            TOp::Poll(n) => {
                for _ in 0..*n {
                    polls_total += 1;
                    if let Some(v) = poll(&mut t, &mut twin, &mut w, enabled, i) {
                        return Some(v);
                    }
                    max_irqs_in_window = max_irqs_in_window.max(w.irqs);
                }
            }
            TOp::PollUntilRemaining(k, cap) => {
                let mut c = 0;
                while t.get_remaining() != *k && c < *cap {
                    c += 1;
                    polls_total += 1;
                    if let Some(v) = poll(&mut t, &mut twin, &mut w, enabled, i) {
                        return Some(v);
                    }
                    max_irqs_in_window = max_irqs_in_window.max(w.irqs);
                }
                if t.get_remaining() == *k {
                    out.bump("probe.aimed-at-remaining");
                }
            }
            TOp::Enable(b) => {
                t.enabled = *b;
                twin.enabled = *b;
                enabled = *b;
                w.open = *b;
                w.reopen();
                // enabling does not re-sample: the remaining count may be anything left over from
                // before, so only "at most max+1" applies, which is what `first-interrupt-late` checks
            }
            TOp::IoReset => {
                t.io_reset();
                twin.io_reset();
                w.reopen();
            }
            TOp::ResetRemaining => {
                t.reset_remaining();
                twin.reset_remaining();
                w.reopen();
            }
            TOp::SetRange(lo, hi, incl) => {
                if s.excl_start && *lo >= 1 {
                    t.set_range(bounds(*lo, *hi, *incl));
                    twin.set_range(bounds(*lo, *hi, *incl));
                } else if *incl {
                    t.set_range(*lo..=*hi);
                    twin.set_range(*lo..=*hi);
                } else {
                    t.set_range(*lo..*hi);
                    twin.set_range(*lo..*hi);
                }
                w.lo = *lo;
                w.max = range_max(*lo, *hi, *incl);
                // the count sampled under the old range is still pending: the window is closed until
                // the next interrupt or reset re-samples under the new range
                w.reopen();
                w.lo = 0; // gap clause suspended ...
                w.max = u32::MAX - 1;
                let _ = (lo, hi);
            }
            TOp::Reapply => {
                use std::ops::RangeBounds;
                let a = {
                    let g = t.get_range();
                    (g.start_bound().cloned(), g.end_bound().cloned())
                };
                let b = {
                    let g = twin.get_range();
                    (g.start_bound().cloned(), g.end_bound().cloned())
                };
                t.set_range(a);
                twin.set_range(b);
            }
            TOp::SetExact(n) => {
                t.set_exact(*n);
                twin.set_exact(*n);
                w.reopen();
                w.lo = 0;
                w.max = u32::MAX - 1;
            }
        }
        // after a range change the gap clause resumes at the next explicit reset
        if matches!(op, TOp::ResetRemaining | TOp::IoReset) {
            let (lo, hi, incl) = current_range(s, &s.ops[..=i]);
            w.lo = lo;
            w.max = range_max(lo, hi, incl);
            // the sampled value itself is observable: it must lie in the range
            let rem = t.get_remaining();
            if rem < lo || rem > w.max {
                return fail(i, "sample-out-of-range", format!("get_remaining() = {rem} right after a reset, range {lo}..={}", w.max));
            }
        }
        fp.add_str(match op {
            TOp::Poll(_) => "p",
            TOp::PollUntilRemaining(..) => "u",
            TOp::Enable(true) => "e",
            TOp::Enable(false) => "d",
            TOp::IoReset => "i",
            TOp::ResetRemaining => "r",
            TOp::SetRange(..) => "s",
            TOp::SetExact(_) => "x",
            TOp::Reapply => "a",
        });
    }
    out.sim_time = polls_total;
    out.trace = fp.0 ^ polls_total;
    fp.add(s.lo as u64);
    fp.add(s.hi as u64);
    if max_irqs_in_window >= 3 {
        out.fingerprint = Some(fp.0);
    }
    None
}

fn current_range(s: &C34Scn, ops: &[TOp]) -> (u32, u32, bool) {
    let mut r = (s.lo, s.hi, s.incl);
    for o in ops {
        match o {
            TOp::SetRange(lo, hi, incl) => r = (*lo, *hi, *incl),
            TOp::SetExact(n) => r = (*n, *n, true),
            _ => {}
        }
    }
    r
}

fn machine(s: &C34Scn, out: &mut Outcome) -> Option<Violation> {
    // counting loop in user space, timer handler from the template; intervals are well above the handler length
    let haddr = 0x1000;
    let mut r = Rng::new(s.entropy);
    let scn = MScn {
        profile: "C34m".into(),
        entropy: s.entropy,
        flags: FlagsS { strict: false, real_traps: false, debug_frames: false, ignore_privilege: false, init: InitS::Known(0) },
        srcs: vec![SrcSpec { text: ".orig x3000\n    LD R6, USP\n    AND R0, R0, #0\nL   ADD R0, R0, #1\n    BR L\nUSP .fill xF000\n.end\n".into(), debug: false }, SrcSpec { text: gen_handler(&mut r, haddr, None, false, 0), debug: false }],
        pokes: vec![(0x100 + s.vect as u16, vec![haddr])],
        regs: vec![],
        pc: 0x3000,
        psr: None,
        kb: IoSpec::Absent,
        disp: IoSpec::Absent,
        devs: {
            let mut d = vec![];
            if !s.ext_ticks.is_empty() {
                d.push(DevSpec::Script(crate::env::ScriptSpec { ports: vec![], vect: 0x90, prio: 0, raises: vec![], externals: s.ext_ticks.clone(), read_refuse: vec![], write_refuse: vec![], read_base: 0, mcr_clear: vec![], wrap: 0 }));
            }
            d.push(DevSpec::Timer(TimerSpec { seed: s.seed, lo: s.lo, hi: s.hi, incl: s.incl, vect: s.vect, prio: s.prio, enabled: true }));
            d
        },
        iregs: vec![],
        events: vec![],
        ops: vec![],
        max_ticks: 1 << 30,
    };
    let mut w = match guarded(|| build(&scn)) {
        Ok(Ok(w)) => w,
        Ok(Err(_)) => {
            out.bump("harness.unbuildable");
            return None;
        }
        Err(p) => return Some(Violation { class: "panic-in-setup".into(), step: 0, detail: p }),
    };
    let max = if s.incl { s.hi } else { s.hi - 1 };
    let total: u32 = s.ops.iter().map(|o| if let TOp::Poll(n) = o { *n } else { 0 }).sum::<u32>().clamp(200, 6000);
    let mut last: Option<u32> = None;
    let mut entries = 0u32;
    // raises as the timer itself reports them (device log), measured in simulator boundaries
    let timer_ix = w.timers.first().map(|t| t.0);
    let timer_dev = w.dev_ix.get(timer_ix.unwrap_or(0)).copied();
    let mut last_raise: Option<u32> = None;
    let mut raises = 0u32;
    let faulty = !s.ext_ticks.is_empty() || s.poison_at.is_some();
    let _ = w.log.take();
    for tick in 0..total {
        if s.poison_at == Some(tick) {
            if let Some((_, t)) = w.timers.first() {
                let t2 = t.clone();
                let _ = std::thread::spawn(move || {
                    let _g = t2.lock().unwrap_or_else(|e| e.into_inner());
                    std::panic::resume_unwind(Box::new("poison"));
                })
                .join();
                out.bump("fired.lock-poison");
            }
        }
        let d0 = w.sim.frame_stack.len();
        match guarded(|| w.sim.step_in()) {
            Ok(Ok(())) => {}
            Ok(Err(lc3_ensemble::sim::SimErr::Interrupt(_))) if !s.ext_ticks.is_empty() => {
                out.bump("fired.irq-external");
            }
            Ok(Err(e)) => return Some(Violation { class: "machine-error".into(), step: tick as u64, detail: format!("{e:?}") }),
            Err(p) => return Some(Violation { class: "panic-in-step".into(), step: tick as u64, detail: p }),
        }
        if faulty {
            // every simulator boundary is one poll of the timer; its answer is in the device log
            let recs = w.log.take();
            let polled: Vec<&crate::env::Rec> = recs.iter().filter(|r| matches!(r, crate::env::Rec::Poll { dev, .. } if Some(*dev) == timer_dev)).collect();
            if polled.len() != 1 {
                return Some(Violation { class: "timer-poll-count".into(), step: tick as u64, detail: format!("boundary {tick}: the timer was polled {} times (one poll per boundary is what its interval counts)", polled.len()) });
            }
            if matches!(polled[0], crate::env::Rec::Poll { res: crate::env::PollRes::Vect(..), .. }) {
                raises += 1;
                match last_raise {
                    Some(l) => {
                        let gap = tick - l - 1;
                        if gap < s.lo || gap > max {
                            return Some(Violation { class: "gap-out-of-range".into(), step: tick as u64, detail: format!("timer raised at boundaries {l} and {tick}: {gap} polls in between, range {}..={max}", s.lo) });
                        }
                    }
                    None => {
                        if tick + 1 > max + 1 {
                            return Some(Violation { class: "first-interrupt-late".into(), step: tick as u64, detail: format!("first raise at poll {}, range maximum {max}", tick + 1) });
                        }
                    }
                }
                last_raise = Some(tick);
            } else if let Some(l) = last_raise {
                if tick - l > max + 1 {
                    return Some(Violation { class: "gap-out-of-range".into(), step: tick as u64, detail: format!("no raise for {} boundaries, range maximum {max}", tick - l) });
                }
            } else if tick + 1 > max + 1 {
                return Some(Violation { class: "first-interrupt-late".into(), step: tick as u64, detail: format!("{} boundaries without a raise, range maximum {max}", tick + 1) });
            }
            continue;
        }
        if w.sim.frame_stack.len() > d0 && w.sim.pc == haddr {
            entries += 1;
            if w.sim.psr().priority() != s.prio.min(7) {
                return Some(Violation { class: "wrong-priority".into(), step: tick as u64, detail: format!("handler entered at priority {}, configured {}", w.sim.psr().priority(), s.prio) });
            }
            match last {
                Some(l) => {
                    let gap = tick - l - 1;
                    if gap < s.lo || gap > max {
                        return Some(Violation { class: "gap-out-of-range".into(), step: tick as u64, detail: format!("interrupt entries at boundaries {l} and {tick}: {gap} polls in between, range {}..={max}", s.lo) });
                    }
                }
                None => {
                    if tick + 1 > max + 1 {
                        return Some(Violation { class: "first-interrupt-late".into(), step: tick as u64, detail: format!("first entry at poll {}, range maximum {max}", tick + 1) });
                    }
                }
            }
            last = Some(tick);
        } else if let Some(l) = last {
            if tick - l > max + 1 {
                return Some(Violation { class: "gap-out-of-range".into(), step: tick as u64, detail: format!("no interrupt entry for {} boundaries, range maximum {max}", tick - l) });
            }
        }
    }
    let _ = w.log.take();
    out.sim_time = total as u64;
    let mut fp = Fp::new();
    fp.add(s.lo as u64);
    fp.add(s.hi as u64);
    fp.add(entries as u64);
    out.trace = fp.0;
    if raises >= 3 {
        out.bump("probe.machine-arm-faulty");
        out.fingerprint = Some(fp.0 ^ 0x4E ^ raises as u64);
    }
    if entries >= 3 {
        out.bump("probe.machine-arm");
        out.fingerprint = Some(fp.0 ^ 0x4D);
    }
    None
}

impl Check for C34 {
    type Scn = C34Scn;
    fn id(&self) -> &'static str {
        "C34"
    }
    fn meta(&self) -> Meta {
        Meta {
            rule: "Real TimerDevice with random seeds (and None under controlled ambient entropy), exact counts n>=1, inclusive and half-open ranges with 1<=min<=max (including width-1 half-open ranges n..n+1), vectors, priorities (incl. >7). Direct arm: poll histories of up to ~6000 polls interleaved with enable/disable, io_reset, reset_remaining, set_range/set_exact, and toggles aimed at a chosen remaining count (poll until get_remaining()==k, then toggle). Window oracle: polls strictly between consecutive interrupts in [min,max]; first interrupt of a window by poll max+1; sampled remaining after a reset in range; never an interrupt while disabled; priority min(p,7); a twin timer with the same seed and history agrees poll by poll. Machine arm (1/5): the timer attached (as Arc<Mutex<TimerDevice>>) to a simulator running a counting loop with a template handler; entry boundaries give the same gap bounds; in part of these runs an external-interrupt source registered before the timer fires at scheduled polls (the run resumes after SimErr::Interrupt) and/or a thread panics while holding the timer's mutex: the timer must still see exactly one poll per boundary and keep raising within its range (raises read from the device log). Non-trivial: >=3 interrupts in one window.",
            components_real: &["TimerDevice (new, poll_interrupt, io_reset, reset_remaining, set_range, set_exact, enabled)", "Simulator + interrupt entry (machine arm)"],
            components_stub: &["poll driver", "entropy source for unseeded timers"],
            assumptions: &["ranges containing 0 and the exact count 0 are outside the gap clause (the property names n>=1); they are generated only for the disabled=>never and reproducibility clauses"],
            level: "exploration",
            enumerated: "none",
        }
    }
    fn quick_runs(&self) -> u64 {
        40_000
    }
    fn entropy(&self, s: &C34Scn) -> u64 {
        s.entropy
    }
    fn generate(&self, r: &mut Rng, _t: Tier, _i: u64) -> C34Scn {
        let machine = r.chance(1, 5);
        let zero = !machine && r.chance(1, 12);
        let lo = if zero { 0 } else if machine { 30 + r.below(30) as u32 } else { 1 + r.below(12) as u32 };
        let incl = r.bool();
        let width = *r.pick(&[0u32, 0, 1, 1, 2, 3, 7, 20]);
        let hi = if incl { lo + width } else { lo + width + 1 };
        let mut ops = vec![TOp::Enable(true)];
        let n = (2 + r.below(10)) * r.deep() as u64;
        for _ in 0..n {
            let mut pre: Option<TOp> = None;
            let opx = match r.below(14) {
                0..=5 => TOp::Poll(1 + r.below(600) as u32),
                6 => TOp::Enable(false),
                7 => TOp::Enable(true),
                8 => TOp::IoReset,
                9 => TOp::ResetRemaining,
                10 | 11 => {
                    // aim a toggle at a chosen remaining count
                    let k = *r.pick(&[0u32, 1, 1, 2]);
                    pre = Some(TOp::PollUntilRemaining(k, 200));
                    TOp::Enable(false)
                }
                12 if !machine => {
                    let l = 1 + r.below(10) as u32;
                    let inc = r.bool();
                    let w2 = r.below(5) as u32;
                    pre = Some(TOp::SetRange(l, if inc { l + w2 } else { l + w2 + 1 }, inc));
                    TOp::ResetRemaining
                }
                13 if !machine && r.chance(1, 2) => TOp::Reapply,
                _ => TOp::Poll(1 + r.below(40) as u32),
            };
            if let Some(p) = pre {
                ops.push(p);
            }
            ops.push(opx);
            if matches!(ops.last(), Some(TOp::Enable(false))) {
                ops.push(TOp::Poll(1 + r.below(80) as u32));
                if r.bool() {
                    ops.push(TOp::Enable(true));
                }
            }
        }
        C34Scn { entropy: r.next_u64(), seed: if r.chance(1, 6) { None } else { Some(r.next_u64()) }, lo, hi, incl, vect: 0x81 + r.below(0x70) as u8, prio: if machine { 1 + r.below(7) as u8 } else { r.below(10) as u8 }, ops, machine, ext_ticks: if machine && r.chance(1, 3) { crate::c16::sorted((0..1 + r.below(6)).map(|_| 1 + r.below(400) as u32).collect()) } else { vec![] }, poison_at: if machine && r.chance(1, 4) { Some(r.below(300) as u32) } else { None }, excl_start: !machine && r.chance(1, 4) }
    }
    fn execute(&self, s: &C34Scn) -> Outcome {
        let mut out = Outcome::default();
        let v = match guarded(|| if s.machine { machine(s, &mut out) } else { direct(s, &mut out) }) {
            Ok(v) => v,
            Err(p) => Some(Violation { class: "panic".into(), step: 0, detail: p }),
        };
        out.violation = v;
        out
    }
    fn shrink(&self, s: &C34Scn) -> Vec<C34Scn> {
        let mut c = vec![];
        for i in (0..s.ops.len()).rev() {
            let mut t = s.clone();
            t.ops.remove(i);
            c.push(t);
        }
        for i in 0..s.ops.len() {
            if let TOp::Poll(n) = s.ops[i] {
                if n > 1 {
                    let mut t = s.clone();
                    t.ops[i] = TOp::Poll(n / 2);
                    c.push(t);
                    let mut t = s.clone();
                    t.ops[i] = TOp::Poll(n - 1);
                    c.push(t);
                }
            }
        }
        c
    }
}
