//! C32 (port world P), C30 (reset = crash/restart with only configuration surviving),
//! C29 (loading places exactly the image), C15 (word world W).

use std::collections::{BTreeMap, BTreeSet};
use std::sync::Arc;

use lc3_ensemble::sim::device::ExternalDevice;
use lc3_ensemble::sim::mem::{Word, WordFiller};
use lc3_ensemble::sim::{MemAccessCtx, Simulator};
use serde::{Deserialize, Serialize};

use crate::c16::{shrink_mscn, sorted};
use crate::env::*;
use crate::genr::*;
use crate::mgen::*;
use crate::mworld::*;
use crate::rng::{Fp, Rng};
use crate::runner::*;
use crate::tgen;

// ===========================================================================
// C32 — memory-mapped I/O reaches exactly the mapped register or device

#[derive(Clone, Debug, Serialize, Deserialize, PartialEq)]
pub enum POp {
    /// add recording device #n (harness index) at these ports; refuse flags for its first calls
    Add { addrs: Vec<u16>, read_refuse: Vec<u32>, write_refuse: Vec<u32> },
    Remove(u16),
    /// add the library's own `NullDevice` at these ports (a device slot that is empty from the start)
    AddNull { addrs: Vec<u16> },
    SetKb,
    SetDisp,
    Mmap(u16, IReg),
    Munmap(u16),
    Read { addr: u16, privileged: bool, eff: bool },
    Write { addr: u16, data: u16, privileged: bool },
}
#[derive(Clone, Debug, Serialize, Deserialize, PartialEq)]
pub struct C32Scn {
    pub entropy: u64,
    pub ops: Vec<POp>,
    pub exhaustive: bool,
    /// where the handler comes from: 0 = the simulator's own, 1 = `DeviceHandler::default()` put in
    /// its place, 2 = `DeviceHandler::new()` put in its place (all three are the documented empty handler)
    #[serde(default)]
    pub handler_from: u8,
}
pub struct C32;

const ALPHA: [u16; 9] = [0xFE00, 0xFE02, 0xFE04, 0xFE06, 0xFE08, 0xFE10, 0xFFFC, 0xFFFE, 0xFFFF];

fn small_alphabet(i: u64) -> POp {
    const P1: u16 = 0xFE10;
    const P2: u16 = 0xFE12;
    match i {
        0 => POp::Add { addrs: vec![P1], read_refuse: vec![], write_refuse: vec![] },
        1 => POp::Add { addrs: vec![P2], read_refuse: vec![], write_refuse: vec![] },
        2 => POp::Add { addrs: vec![P1, P2], read_refuse: vec![], write_refuse: vec![] },
        3 => POp::Remove(3),
        4 => POp::Remove(4),
        5 => POp::Mmap(P1, IReg::PC),
        6 => POp::Munmap(P1),
        7 => POp::Read { addr: P1, privileged: true, eff: true },
        8 => POp::Write { addr: P1, data: 0x1357, privileged: true },
        9 => POp::Read { addr: P2, privileged: true, eff: true },
        10 => POp::Write { addr: P2, data: 0x2468, privileged: true },
        _ => POp::AddNull { addrs: vec![P1] },
    }
}
const SMALL_N: u64 = 12;
fn exhaustive_count(max_len: u32) -> u64 {
    (1..=max_len).map(|l| SMALL_N.pow(l)).sum()
}

struct RefPorts {
    owner: BTreeMap<u16, u16>,
    live: BTreeMap<u16, u16>, // library id -> harness recorder index
    null_ids: BTreeSet<u16>,
    next_id: u16,
    iregs: BTreeMap<u16, IReg>,
    mirror: BTreeMap<u16, u16>,
    pc: u16,
    psr: u16,
    mcr: bool,
    ssp: u16,
}

impl C32 {
    fn run(&self, s: &C32Scn, out: &mut Outcome) -> Option<Violation> {
        let log = Log::new();
        let mut sim = Simulator::new(lc3_ensemble::sim::SimFlags { machine_init: lc3_ensemble::sim::mem::MachineInitStrategy::Known { value: 0 }, ..Default::default() });
        match s.handler_from {
            1 => sim.device_handler = Default::default(),
            2 => sim.device_handler = lc3_ensemble::sim::device::DeviceHandler::new(),
            _ => {}
        }
        let mut m = RefPorts { owner: BTreeMap::new(), live: BTreeMap::new(), null_ids: BTreeSet::new(), next_id: 3, iregs: BTreeMap::new(), mirror: BTreeMap::new(), pc: 0x3000, psr: 0x8002, mcr: false, ssp: 0x3000 };
        for p in [0xFE00, 0xFE02] {
            m.owner.insert(p, 1);
        }
        for p in [0xFE04, 0xFE06] {
            m.owner.insert(p, 2);
        }
        m.iregs.insert(0xFFFC, IReg::PSR);
        m.iregs.insert(0xFFFE, IReg::MCR);
        let mut recorder = 100u16; // harness index of the next recording device
        let mut fp = Fp::new();
        let (mut adds_ok, mut removes, mut dispatch_after_remove) = (0u32, 0u32, 0u32);
        macro_rules! fail {
            ($i:expr, $c:expr, $d:expr) => {
                return Some(Violation { class: $c.to_string(), step: $i as u64, detail: format!("op #{} {:?}: {}", $i, s.ops[$i], $d) })
            };
        }
        let mk = |ix: u16, rr: &[u32], wr: &[u32], log: &Log| ScriptDev::new(ix, log.clone(), ScriptSpec { ports: vec![], vect: 0, prio: 0, raises: vec![], externals: vec![], read_refuse: rr.to_vec(), write_refuse: wr.to_vec(), read_base: ix.wrapping_mul(0x1111), mcr_clear: vec![], wrap: 0 }, None);
        for (i, op) in s.ops.iter().enumerate() {
            let _ = log.take();
            match op {
                POp::Add { addrs, read_refuse, write_refuse } => {
                    let ix = recorder;
                    recorder += 1;
                    let dev = mk(ix, read_refuse, write_refuse, &log);
                    let r = match guarded(|| sim.device_handler.add_device(dev, addrs)) {
                        Ok(r) => r,
                        Err(p) => fail!(i, "panic-in-add_device", p),
                    };
                    let ok = addrs.iter().all(|a| *a >= 0xFE00 && !m.owner.contains_key(a));
                    match (r, ok) {
                        (Ok(id), true) => {
                            if id != m.next_id {
                                fail!(i, "device-id", format!("add_device returned id {id}, model expects {} (ids are never reused)", m.next_id));
                            }
                            for a in addrs {
                                m.owner.insert(*a, id);
                            }
                            m.live.insert(id, ix);
                            m.next_id += 1;
                            adds_ok += 1;
                        }
                        (Err(_), false) => {}
                        (Ok(id), false) => fail!(i, "add-accepted", format!("add_device succeeded (id {id}) although a requested port is not a free I/O address")),
                        (Err(_), true) => fail!(i, "add-rejected", "add_device failed although every requested port is a free I/O address".to_string()),
                    }
                    fp.add(1);
                }
                POp::Remove(id) => {
                    if let Err(p) = guarded(|| sim.device_handler.remove_device(*id)) {
                        fail!(i, "panic-in-remove_device", p);
                    }
                    if m.live.remove(id).is_some() || m.null_ids.remove(id) || *id <= 2 {
                        removes += 1;
                    }
                    if *id > 2 {
                        m.owner.retain(|_, o| *o != *id);
                    }
                    fp.add(2);
                }
                POp::AddNull { addrs } => {
                    let r = match guarded(|| sim.device_handler.add_device(lc3_ensemble::sim::device::NullDevice, addrs)) {
                        Ok(r) => r.map_err(|_| ()),
                        Err(p) => fail!(i, "panic-in-add_device", p),
                    };
                    let ok = addrs.iter().all(|a| *a >= 0xFE00 && !m.owner.contains_key(a));
                    match (r, ok) {
                        (Ok(id), true) => {
                            if id != m.next_id {
                                fail!(i, "device-id", format!("add_device returned id {id}, model expects {}", m.next_id));
                            }
                            for a in addrs {
                                m.owner.insert(*a, id);
                            }
                            // owns its ports but never answers: no recorder behind it
                            m.null_ids.insert(id);
                            m.next_id += 1;
                            adds_ok += 1;
                        }
                        (Err(()), false) => {}
                        (Ok(id), false) => fail!(i, "add-accepted", format!("add_device(NullDevice) succeeded (id {id}) although a requested port is not a free I/O address")),
                        (Err(()), true) => fail!(i, "add-rejected", "add_device(NullDevice) failed although every requested port is a free I/O address".to_string()),
                    }
                    fp.add(8);
                }
                POp::SetKb | POp::SetDisp => {
                    let ix = recorder;
                    recorder += 1;
                    let dev = mk(ix, &[], &[], &log);
                    if matches!(op, POp::SetKb) {
                        sim.device_handler.set_keyboard(dev);
                        m.live.insert(1, ix);
                    } else {
                        sim.device_handler.set_display(dev);
                        m.live.insert(2, ix);
                    }
                    fp.add(3);
                }
                POp::Mmap(a, r) => {
                    let res = sim.mmap_internal(*a, r.to_lib());
                    let ok = *a >= 0xFE00 && !m.iregs.contains_key(a);
                    if res.is_ok() != ok {
                        fail!(i, "mmap-result", format!("mmap_internal returned {res:?}, model expects success={ok}"));
                    }
                    if ok {
                        m.iregs.insert(*a, *r);
                    }
                    fp.add(4);
                }
                POp::Munmap(a) => {
                    let res = sim.munmap_internal(*a);
                    let had = m.iregs.remove(a).is_some();
                    if res != had {
                        fail!(i, "munmap-result", format!("munmap_internal returned {res}, model {had}"));
                    }
                    fp.add(5);
                }
                POp::Read { addr, privileged, eff } => {
                    let ctx = MemAccessCtx { privileged: *privileged, strict: false, io_effects: *eff, track_access: false };
                    let r = match guarded(|| sim.read_mem(*addr, ctx)) {
                        Ok(r) => r.map(|w| w.get()).map_err(|e| err_kind(&e)),
                        Err(p) => fail!(i, "panic-in-read_mem", p),
                    };
                    let recs = log.take();
                    let exp: Result<u16, &str>;
                    let mut exp_call: Option<u16> = None; // harness recorder index expected to be called
                    if !*privileged && !(0x3000..0xFE00).contains(addr) {
                        exp = Err("AccessViolation");
                    } else if *addr < 0xFE00 {
                        exp = Ok(sim.mem[*addr].get());
                    } else if let Some(ir) = m.iregs.get(addr) {
                        let v = match ir {
                            IReg::PC => m.pc,
                            IReg::PSR => m.psr,
                            IReg::MCR => (m.mcr as u16) << 15,
                            IReg::SavedSP => m.ssp,
                        };
                        m.mirror.insert(*addr, v);
                        exp = Ok(v);
                    } else {
                        if let Some(ix) = m.owner.get(addr).and_then(|id| m.live.get(id)) {
                            exp_call = Some(*ix);
                        }
                        // the device's answer is environment input: take it from the witness log
                        match (&exp_call, recs.first()) {
                            (Some(ix), Some(Rec::Read { dev, addr: a, eff: e, res, .. })) if dev == ix && a == addr && e == eff && recs.len() == 1 => {
                                if let Some(v) = res {
                                    m.mirror.insert(*addr, *v);
                                }
                            }
                            (Some(ix), other) => fail!(i, "dispatch-missing", format!("device #{ix} owns x{addr:04X} but its call log shows {other:?} (all calls: {recs:?})")),
                            (None, _) => {}
                        }
                        exp = Ok(m.mirror.get(addr).copied().unwrap_or(0));
                    }
                    if exp_call.is_none() && !recs.is_empty() {
                        fail!(i, "dispatch-unexpected", format!("no device should have been reached, log shows {recs:?}"));
                    }
                    if r != exp {
                        fail!(i, "read-result", format!("read_mem returned {r:?}, model {exp:?}"));
                    }
                    if exp_call.is_some() && removes > 0 {
                        dispatch_after_remove += 1;
                    }
                    fp.add(6);
                }
                POp::Write { addr, data, privileged } => {
                    let ctx = MemAccessCtx { privileged: *privileged, strict: false, io_effects: true, track_access: false };
                    let before = sim.mem[*addr].get();
                    let r = match guarded(|| sim.write_mem(*addr, Word::new_init(*data), ctx)) {
                        Ok(r) => r.map_err(|e| err_kind(&e)),
                        Err(p) => fail!(i, "panic-in-write_mem", p),
                    };
                    let recs = log.take();
                    let mut exp_call = None;
                    let exp: Result<(), &str>;
                    let mut exp_mem = before;
                    if !*privileged && !(0x3000..0xFE00).contains(addr) {
                        exp = Err("AccessViolation");
                    } else if *addr < 0xFE00 {
                        exp = Ok(());
                        exp_mem = *data;
                    } else if let Some(ir) = m.iregs.get(addr) {
                        match ir {
                            IReg::PC => m.pc = *data,
                            IReg::PSR => {
                                let cc = data & 7;
                                let cc = if cc == 1 || cc == 2 || cc == 4 { cc } else { sim.psr().get() & 7 };
                                m.psr = (data & 0x8700) | cc;
                            }
                            IReg::MCR => m.mcr = data & 0x8000 != 0,
                            IReg::SavedSP => m.ssp = *data,
                        }
                        m.mirror.insert(*addr, *data);
                        exp_mem = *data;
                        exp = Ok(());
                    } else {
                        exp = Ok(());
                        if let Some(ix) = m.owner.get(addr).and_then(|id| m.live.get(id)) {
                            exp_call = Some(*ix);
                            match recs.first() {
                                Some(Rec::Write { dev, addr: a, data: d, res, .. }) if dev == ix && a == addr && d == data && recs.len() == 1 => {
                                    if *res {
                                        m.mirror.insert(*addr, *data);
                                        exp_mem = *data;
                                    }
                                }
                                other => fail!(i, "dispatch-missing", format!("device #{ix} owns x{addr:04X} but its call log shows {other:?} (all calls: {recs:?})")),
                            }
                        }
                    }
                    if exp_call.is_none() && !recs.is_empty() {
                        fail!(i, "dispatch-unexpected", format!("no device should have been reached, log shows {recs:?}"));
                    }
                    if r != exp {
                        fail!(i, "write-result", format!("write_mem returned {r:?}, model {exp:?}"));
                    }
                    if sim.mem[*addr].get() != exp_mem {
                        fail!(i, "write-mirror", format!("mem[x{addr:04X}] = x{:04X} after the write, model x{exp_mem:04X} (writes to unowned ports and refused writes leave memory unchanged)", sim.mem[*addr].get()));
                    }
                    if exp_call.is_some() && removes > 0 {
                        dispatch_after_remove += 1;
                    }
                    fp.add(7);
                }
            }
            // internal registers are observable directly
            if sim.pc != m.pc || sim.psr().get() != m.psr || sim.mcr().load(std::sync::atomic::Ordering::Relaxed) != m.mcr {
                fail!(i, "internal-register", format!("pc/psr/mcr = x{:04X}/x{:04X}/{}, model x{:04X}/x{:04X}/{}", sim.pc, sim.psr().get(), sim.mcr().load(std::sync::atomic::Ordering::Relaxed), m.pc, m.psr, m.mcr));
            }
        }
        out.sim_time = s.ops.len() as u64;
        out.trace = fp.0;
        if s.exhaustive {
            out.bump("probe.exhaustive-sequence");
        }
        if (adds_ok >= 1 && removes >= 1 && dispatch_after_remove >= 1) || s.exhaustive {
            out.fingerprint = Some(fp.0 ^ crate::rng::fnv(&format!("{:?}", s.ops)));
        }
        None
    }
}

impl Check for C32 {
    type Scn = C32Scn;
    fn id(&self) -> &'static str {
        "C32"
    }
    fn meta(&self) -> Meta {
        Meta {
            rule: "Operation sequences over add_device (recording devices; port lists of 0-3 with duplicates, non-I/O members, already-owned and reserved ports), remove_device (live, fixed 0/1/2, stale, never-issued ids), set_keyboard/set_display, mmap_internal/munmap_internal (all four registers; occupied and non-I/O addresses), read_mem/write_mem with privileged and unprivileged, effectful and effectless contexts, over the port alphabet {xFE00,02,04,06,08,10,xFFFC,xFFFE,xFFFF} plus random I/O and non-I/O addresses; compared step by step with a port-table model (owner, live devices, next id, register map, memory mirror) using the recording devices' call logs as witnesses. The first runs of a batch enumerate every sequence of length <= 3 (quick) / <= 4 (thorough) over a 12-operation alphabet (2 ports, 2 devices). Non-trivial (random runs): >=1 successful add, >=1 remove, >=1 dispatch after the remove.",
            components_real: &["DeviceHandler (add/remove/set_keyboard/set_display, io_read/io_write dispatch)", "Simulator::read_mem/write_mem", "mmap_internal/munmap_internal"],
            components_stub: &["recording ScriptDev devices", "RefPorts model"],
            assumptions: &["a device's answer to a read is environment input taken from its own call log"],
            level: "exploration",
            enumerated: "all sequences of length <= 3 (quick) or <= 4 (thorough) over the 12-operation reduced alphabet: 1884 / 22620 sequences",
        }
    }
    fn quick_runs(&self) -> u64 {
        exhaustive_count(3) + 20_000
    }
    fn thorough_runs(&self) -> u64 {
        u64::MAX
    }
    fn entropy(&self, s: &C32Scn) -> u64 {
        s.entropy
    }
    fn generate(&self, r: &mut Rng, tier: Tier, i: u64) -> C32Scn {
        let maxlen = if tier == Tier::Thorough { 4 } else { 3 };
        if i < exhaustive_count(maxlen) {
            // decode i as a sequence over the small alphabet
            let mut rem = i;
            let mut len = 1;
            while rem >= SMALL_N.pow(len) {
                rem -= SMALL_N.pow(len);
                len += 1;
            }
            let mut ops = vec![];
            for _ in 0..len {
                ops.push(small_alphabet(rem % SMALL_N));
                rem /= SMALL_N;
            }
            return C32Scn { entropy: 1, ops, exhaustive: true, handler_from: (i % 3) as u8 };
        }
        let n = (4 + r.below(36)) * r.deep() as u64;
        let addr = |r: &mut Rng| match r.below(10) {
            0..=6 => *r.pick(&ALPHA),
            7 => 0xFE00 + r.below(0x200) as u16,
            8 => 0x3000 + r.below(0x100) as u16,
            _ => r.below(0x3000) as u16,
        };
        let mut ops = vec![];
        for _ in 0..n {
            ops.push(match r.below(16) {
                0..=2 => {
                    let k = r.below(4);
                    let mut a: Vec<u16> = (0..k).map(|_| addr(r)).collect();
                    if r.chance(1, 8) && !a.is_empty() {
                        let d = a[0];
                        a.push(d);
                    }
                    POp::Add { addrs: a, read_refuse: sorted((0..r.below(2)).map(|_| r.below(3) as u32).collect()), write_refuse: sorted((0..r.below(2)).map(|_| r.below(3) as u32).collect()) }
                }
                3 | 4 => POp::Remove(*r.pick(&[0u16, 1, 2, 3, 3, 4, 4, 5, 6, 7, 9, 200])),
                5 => if r.chance(1, 3) { POp::AddNull { addrs: (0..1 + r.below(2)).map(|_| addr(r)).collect() } } else { POp::SetKb },
                6 => POp::SetDisp,
                7 => POp::Mmap(addr(r), *r.pick(&[IReg::PC, IReg::PSR, IReg::MCR, IReg::SavedSP])),
                8 => POp::Munmap(addr(r)),
                9..=12 => POp::Read { addr: addr(r), privileged: r.chance(5, 6), eff: r.bool() },
                _ => POp::Write { addr: addr(r), data: r.u16(), privileged: r.chance(5, 6) },
            });
        }
        C32Scn { entropy: r.next_u64(), ops, exhaustive: false, handler_from: r.below(3) as u8 }
    }
    fn execute(&self, s: &C32Scn) -> Outcome {
        let mut out = Outcome::default();
        let v = self.run(s, &mut out);
        out.violation = v;
        out
    }
    fn shrink(&self, s: &C32Scn) -> Vec<C32Scn> {
        let mut c = vec![];
        for i in (0..s.ops.len()).rev() {
            let mut t = s.clone();
            t.ops.remove(i);
            t.exhaustive = false;
            c.push(t);
        }
        c
    }
}

// ===========================================================================
// C30 — reset restores a fresh machine and keeps configuration

pub struct C30;
impl C30 {
    fn run(&self, scn: &MScn, out: &mut Outcome) -> Option<Violation> {
        let mut w = match guarded(|| build(scn)) {
            Ok(Ok(w)) => w,
            Ok(Err(_)) => {
                out.bump("harness.unbuildable");
                return None;
            }
            Err(p) => return Some(Violation { class: "panic-in-setup".into(), step: 0, detail: p }),
        };
        let mcr0 = w.sim.mcr().clone();
        let mut bps: Vec<BpS> = vec![];
        let mut maps: BTreeMap<u16, IReg> = BTreeMap::new();
        maps.insert(0xFFFC, IReg::PSR);
        maps.insert(0xFFFE, IReg::MCR);
        for (a, r) in &scn.iregs {
            maps.insert(*a, *r);
        }
        let mut touched_maps: BTreeSet<u16> = maps.keys().copied().collect();
        let mut executed = 0u64;
        let mut cfg_changes = 0u64;
        let mut resets = 0u64;
        let mut added_devs = 0u16;
        let mut fp = Fp::new();
        for (i, op) in scn.ops.iter().enumerate() {
            let before = w.sim.instructions_run;
            match op {
                Op::BpAdd(b) => {
                    if !bps.contains(b) {
                        bps.push(b.clone());
                    }
                    cfg_changes += 1;
                }
                Op::BpRemove(b) => bps.retain(|x| x != b),
                Op::BpClear => bps.clear(),
                Op::Mmap(a, r) => {
                    touched_maps.insert(*a);
                    if *a >= 0xFE00 && !maps.contains_key(a) {
                        maps.insert(*a, *r);
                        cfg_changes += 1;
                    }
                }
                Op::Munmap(a) => {
                    touched_maps.insert(*a);
                    if maps.remove(a).is_some() {
                        cfg_changes += 1;
                    }
                }
                Op::SetStrict(_) | Op::SetRealTraps(_) | Op::SetIgnorePriv(_) | Op::SetDebugFrames(_) => cfg_changes += 1,
                _ => {}
            }
            let res = guarded(|| exec_op(&mut w, op));
            if let Err(p) = res {
                return Some(Violation { class: format!("panic-in-{}", crate::c16::op_name(op)), step: i as u64, detail: p });
            }
            executed += w.sim.instructions_run.saturating_sub(before);
            fp.add_str(crate::c16::op_name(op));
            if !matches!(op, Op::Reset) {
                continue;
            }
            resets += 1;
            let fail = |c: &str, d: String| Some(Violation { class: c.to_string(), step: i as u64, detail: format!("after reset (op #{i}): {d}") });
            // ---- volatile state equals a new simulator with the same flags
            let flags_now = w.sim.flags;
            let fresh = Simulator::new(flags_now);
            if w.sim.pc != fresh.pc || w.sim.psr().get() != fresh.psr().get() {
                return fail("reset-pc-psr", format!("pc/psr x{:04X}/x{:04X}, fresh x{:04X}/x{:04X}", w.sim.pc, w.sim.psr().get(), fresh.pc, fresh.psr().get()));
            }
            for k in 0..8 {
                if w.sim.reg_file[reg(k)] != fresh.reg_file[reg(k)] {
                    return fail("reset-register", format!("R{k} = x{:04X} (init {}), fresh x{:04X} (init {})", w.sim.reg_file[reg(k)].get(), w.sim.reg_file[reg(k)].is_init(), fresh.reg_file[reg(k)].get(), fresh.reg_file[reg(k)].is_init()));
                }
            }
            for a in 0..=0xFFFFu16 {
                if w.sim.mem[a] != fresh.mem[a] {
                    return fail("reset-memory", format!("mem[x{a:04X}] = x{:04X} (init {}), fresh x{:04X} (init {})", w.sim.mem[a].get(), w.sim.mem[a].is_init(), fresh.mem[a].get(), fresh.mem[a].is_init()));
                }
            }
            if w.sim.frame_stack.len() != 0 {
                return fail("reset-frame-depth", format!("frame depth {}", w.sim.frame_stack.len()));
            }
            if w.sim.frame_stack.frames().is_some() != flags_now.debug_frames {
                return fail("reset-frames-presence", format!("frames() is_some = {}, flags.debug_frames = {}", w.sim.frame_stack.frames().is_some(), flags_now.debug_frames));
            }
            if w.sim.frame_stack.frames().is_some_and(|f| !f.is_empty()) {
                return fail("reset-frame-list", "frame list not empty".into());
            }
            if w.sim.instructions_run != 0 {
                return fail("reset-instr-count", format!("instructions_run = {}", w.sim.instructions_run));
            }
            if w.sim.hit_halt() || w.sim.hit_breakpoint() {
                return fail("reset-pause-reason", format!("hit_halt = {}, hit_breakpoint = {}", w.sim.hit_halt(), w.sim.hit_breakpoint()));
            }
            if w.sim.observer.take_mem_accesses().count() != 0 {
                return fail("reset-observer", "observer not empty".into());
            }
            // ---- kept configuration
            if !Arc::ptr_eq(w.sim.mcr(), &mcr0) {
                return fail("reset-mcr-handle", "mcr() is a different Arc than before".into());
            }
            if w.sim.breakpoints.len() != bps.len() || bps.iter().any(|b| !w.sim.breakpoints.contains(&to_bp(b))) {
                return fail("reset-breakpoints", format!("breakpoints {:?}, model {:?}", w.sim.breakpoints, bps));
            }
            // saved SP is only reachable through a mapping; use one the model knows or add a temporary one
            let probe = maps.iter().find(|(_, r)| **r == IReg::SavedSP).map(|(a, _)| *a);
            let (pa, temp) = match probe {
                Some(a) => (a, false),
                None => (SSP_PROBE, w.sim.mmap_internal(SSP_PROBE, lc3_ensemble::sim::InternalRegister::SavedSP).is_ok()),
            };
            if probe.is_some() || temp {
                let v = w.sim.read_mem(pa, omni()).map(|x| x.get()).unwrap_or(0xDEAD);
                if v != 0x3000 {
                    return fail("reset-saved-sp", format!("saved SP x{v:04X}, fresh x3000"));
                }
                if temp {
                    w.sim.munmap_internal(SSP_PROBE);
                    w.sim.mem[SSP_PROBE].set(0);
                }
            }
            // mappings: every address the history ever touched answers as the model says
            for a in touched_maps.iter().copied().filter(|a| *a >= 0xFE00) {
                let _ = w.log.take();
                match maps.get(&a) {
                    Some(IReg::PC) => {
                        let _ = w.sim.write_mem(a, Word::new_init(0x4242), omni());
                        if w.sim.pc != 0x4242 {
                            return fail("reset-mapping-lost", format!("x{a:04X} was mapped to PC before reset; a write no longer reaches it"));
                        }
                        w.sim.pc = 0x3000;
                    }
                    Some(IReg::PSR) => {
                        let v = w.sim.read_mem(a, omni()).map(|x| x.get()).unwrap_or(0);
                        if v != w.sim.psr().get() {
                            return fail("reset-mapping-lost", format!("x{a:04X} was mapped to PSR; read gives x{v:04X}"));
                        }
                    }
                    Some(IReg::MCR) => {
                        let _ = w.sim.write_mem(a, Word::new_init(0x8000), omni());
                        if !w.sim.mcr().load(std::sync::atomic::Ordering::Relaxed) {
                            return fail("reset-mapping-lost", format!("x{a:04X} was mapped to MCR; a write no longer reaches it"));
                        }
                        w.sim.mcr().store(false, std::sync::atomic::Ordering::Relaxed);
                    }
                    Some(IReg::SavedSP) => {}
                    None => {
                        let (pc0, psr0, mcr0v) = (w.sim.pc, w.sim.psr().get(), w.sim.mcr().load(std::sync::atomic::Ordering::Relaxed));
                        let _ = w.sim.write_mem(a, Word::new_init(0x8301), omni());
                        let changed = w.sim.pc != pc0 || w.sim.psr().get() != psr0 || w.sim.mcr().load(std::sync::atomic::Ordering::Relaxed) != mcr0v;
                        if changed {
                            return fail("reset-mapping-resurrected", format!("x{a:04X} was unmapped before reset; after reset a write there reaches an internal register"));
                        }
                        if w.sim.munmap_internal(a) {
                            return fail("reset-mapping-resurrected", format!("x{a:04X} was unmapped before reset; munmap_internal now reports a mapping"));
                        }
                    }
                }
                // writes above may have left mirror words; restore the fresh IO-page state
                if !scn.devs.iter().any(|d| matches!(d, DevSpec::Script(s) if s.ports.contains(&a))) {
                    w.sim.mem[a].set(0);
                }
            }
            w.sim.mem[0xFFFC].set(0);
            w.sim.mem[0xFFFE].set(0);
            // attached devices still receive reads at their ports and the clock is still polled
            let _ = w.log.take();
            for (di, d) in scn.devs.iter().enumerate() {
                if let DevSpec::Script(sp) = d {
                    if let Some(p) = sp.ports.first() {
                        if maps.contains_key(p) {
                            continue;
                        }
                        let _ = w.sim.read_mem(*p, MemAccessCtx { privileged: true, strict: false, io_effects: false, track_access: false });
                        let recs = w.log.take();
                        if !recs.iter().any(|r| matches!(r, Rec::Read { dev, .. } if *dev == 4 + di as u16)) {
                            return fail("reset-device-detached", format!("device {di} no longer receives reads at x{p:04X}"));
                        }
                        w.sim.mem[*p].set(0);
                    }
                }
            }
            // device ids keep counting from where they were (the device table survived the reset)
            let expect_id = 4 + scn.devs.len() as u16 + added_devs;
            match w.sim.device_handler.add_device(lc3_ensemble::sim::device::NullDevice, &[]) {
                Ok(id) if id == expect_id => added_devs += 1,
                Ok(id) => return fail("reset-device-ids", format!("a device added after reset got id {id}, expected {expect_id}")),
                Err(_) => return fail("reset-device-ids", "add_device with no ports failed after reset".into()),
            }
            // flags untouched
            if w.sim.flags != flags_now {
                return fail("reset-flags", "flags changed".into());
            }
            if executed >= 10 && cfg_changes >= 1 {
                out.bump("probe.reset-after-history");
            }
            if w.sim.frame_stack.len() == 0 && executed > 0 {
                out.bump("fired.reset-midflight");
            }
        }
        w.host.release_all();
        out.sim_time = executed;
        out.trace = fp.0 ^ executed;
        if resets >= 1 && executed >= 10 && cfg_changes >= 1 {
            out.fingerprint = Some(fp.0 ^ executed);
        }
        None
    }
}
impl Check for C30 {
    type Scn = MScn;
    fn id(&self) -> &'static str {
        "C30"
    }
    fn meta(&self) -> Meta {
        Meta {
            rule: "Random histories (step_in, run_with_limit, step_over/out, run_while; flag flips; breakpoint edits; mmap_internal/munmap_internal incl. the default PSR/MCR mappings; loads; pokes; subroutine signatures; interrupts in flight; stops inside subroutines, trap handlers, after errors, after halt) on machines with Known/Seeded initialisation and attached devices, followed by reset() at an arbitrary point, repeated. Immediately after each reset: full memory (value+init), registers, PC, PSR, saved SP, frame depth/list presence, instruction count, pause reasons, observer equal Simulator::new(flags_now); kept: flags, breakpoint set, Arc identity of the MCR handle, every internal-register mapping ever touched answers exactly as the model says (mapped ones still reach their register, unmapped ones stay unmapped), attached devices still receive reads. Non-trivial: reset after >=10 executed instructions with >=1 configuration change before it.",
            components_real: &["Simulator::reset, new", "all run entry points", "breakpoints, ireg mappings, DeviceHandler", "load_obj_file"],
            components_stub: &["configuration model (breakpoints, mappings)", "ClockDev/ScriptDev"],
            assumptions: &["deterministic initialisation strategies only (Known/Seeded), as the property states", "buffer contents after reset are not compared (DESIGN D12)"],
            level: "exploration",
            enumerated: "none",
        }
    }
    fn quick_runs(&self) -> u64 {
        24_000
    }
    fn entropy(&self, s: &MScn) -> u64 {
        s.entropy
    }
    fn generate(&self, r: &mut Rng, _t: Tier, _i: u64) -> MScn {
        let df = r.bool();
        let mut s = if r.chance(1, 3) { gen_soup(r, "C30", df) } else { gen_structured(r, "C30", df, EndKind::Halt) };
        s.flags.init = if r.bool() { InitS::Known(r.u16()) } else { InitS::Seeded(r.next_u64()) };
        s.max_ticks = 4000;
        s.ops.clear();
        let n = (4 + r.below(14)) * r.deep() as u64;
        for _ in 0..n {
            let op = match r.below(22) {
                0..=3 => Op::Step(1 + r.below(30) as u32),
                4 | 5 => Op::RunLimit(1 + r.below(120)),
                6 => Op::StepOver,
                7 => Op::StepOut,
                8 => Op::RunWhile(Pred::Count(r.below(40))),
                9 => Op::BpAdd(if r.bool() { BpS::Pc(0x3000 + r.below(40) as u16) } else { BpS::Reg(r.below(8) as u8, Cmp::Eq(r.below(4) as u16)) }),
                10 => Op::BpClear,
                11 => Op::Mmap(*r.pick(&[0xFE30u16, 0xFE31, 0xFFF8, 0xFFFC, 0xFFFE]), *r.pick(&[IReg::PC, IReg::PSR, IReg::MCR, IReg::SavedSP])),
                12 => Op::Munmap(*r.pick(&[0xFE30u16, 0xFE31, 0xFFF8, 0xFFFC, 0xFFFE, 0xFFFC, 0xFFFE])),
                13 => match r.below(4) {
                    0 => Op::SetStrict(r.chance(1, 4)),
                    1 => Op::SetRealTraps(r.bool()),
                    2 => Op::SetIgnorePriv(r.bool()),
                    _ => Op::SetDebugFrames(r.bool()),
                },
                14 => Op::Load(0),
                15 => Op::Poke(user_addr(r), r.u16()),
                16 => Op::SubDef(0x3000 + r.below(64) as u16, SigS::Regs(vec![0, 1])),
                17 => Op::SetReg(r.below(8) as u8, r.u16()),
                18..=20 => Op::Reset,
                _ => Op::Run,
            };
            let is_reset = matches!(op, Op::Reset);
            if is_reset && r.chance(1, 3) {
                // the clock-enable bit is on at the moment of the reset (a holder of the MCR handle, or
                // a stepped program, switched it on): the handle is kept, the fresh memory image is not
                // supposed to know about it
                s.ops.push(Op::HostWrite { addr: 0xFFFE, data: 0x8000, privileged: true, track: false });
            }
            s.ops.push(op);
            if is_reset && r.chance(2, 3) {
                s.ops.push(Op::Load(0));
            }
        }
        s.ops.push(Op::Reset);
        s
    }
    fn execute(&self, s: &MScn) -> Outcome {
        let mut out = Outcome::default();
        let v = self.run(s, &mut out);
        out.violation = v;
        out
    }
    fn shrink(&self, s: &MScn) -> Vec<MScn> {
        shrink_mscn(s)
    }
}

// ===========================================================================
// C29 — loading places exactly the object image

#[derive(Clone, Debug, Serialize, Deserialize, PartialEq)]
pub struct C29Scn {
    pub entropy: u64,
    pub init: InitS,
    /// generator seeds of the files to load (regenerated deterministically at execution)
    pub files: Vec<u64>,
    /// history: 0 = load file k; 1 = run a few steps; 2 = host poke; encoded as (kind, arg)
    pub history: Vec<(u8, u32)>,
}
pub struct C29;

pub fn c29_file(seed: u64, id: usize) -> tgen::GenFile {
    let mut r = Rng::new(seed);
    let nb = 1 + r.below(3) as usize;
    let mut blocks: Vec<(u16, usize)> = vec![];
    let mut lo: u32 = match r.below(5) {
        0 => 0,
        1 => 0x0200,
        _ => 0x3000 + r.below(0x400) as u32,
    };
    for b in 0..nb {
        let n = 1 + r.below(9) as usize;
        let last = b + 1 == nb;
        // sometimes make the last block end exactly at xFE00
        let orig = if last && r.chance(1, 4) { 0xFE00 - (n as u32).min(8) } else { lo };
        if orig >= 0xFE00 || (b > 0 && orig < lo) {
            break;
        }
        blocks.push((orig as u16, n));
        lo = orig + 0x40 + r.below(0x2000) as u32;
    }
    if blocks.is_empty() {
        blocks.push((0x3000, 3));
    }
    let crlf = r.bool();
    tgen::gen_file(&mut r, &tgen::FileOpts { id, blocks, shared: vec![], exotic: false, crlf, ext_place: 0, max_blkw: 6, pin_first: false, huge: None, pad_comment: 0, plain_head: false, abut: false })
}

impl C29 {
    fn run(&self, s: &C29Scn, out: &mut Outcome) -> Option<Violation> {
        let flags = FlagsS { strict: false, real_traps: false, debug_frames: false, ignore_privilege: false, init: s.init };
        let mut sim = match guarded(|| Simulator::new(flags.to_flags())) {
            Ok(s) => s,
            Err(p) => return Some(Violation { class: "panic-in-new".into(), step: 0, detail: p }),
        };
        let fail = |i: usize, c: &str, d: String| Some(Violation { class: c.to_string(), step: i as u64, detail: d });
        // fresh machine: OS image at its addresses, zeros in the I/O page
        for (a, w) in lc3_ensemble::sim::_os_obj_file().addr_iter() {
            match w {
                Some(v) => {
                    if sim.mem[a].get() != v || !sim.mem[a].is_init() {
                        return fail(0, "fresh-os-image", format!("mem[x{a:04X}] = x{:04X} (init {}), OS image has x{v:04X}", sim.mem[a].get(), sim.mem[a].is_init()));
                    }
                }
                None => {
                    if sim.mem[a].is_init() {
                        return fail(0, "fresh-os-image", format!("mem[x{a:04X}] is reserved in the OS image but initialised"));
                    }
                }
            }
        }
        for a in 0xFE00..=0xFFFFu16 {
            if sim.mem[a].get() != 0 || !sim.mem[a].is_init() {
                return fail(0, "fresh-io-page", format!("mem[x{a:04X}] = x{:04X} (init {})", sim.mem[a].get(), sim.mem[a].is_init()));
            }
        }
        let files: Vec<tgen::GenFile> = s.files.iter().enumerate().map(|(i, sd)| c29_file(*sd, i)).collect();
        let mut objs = vec![];
        for f in &files {
            let ast = match lc3_ensemble::parse::parse_ast(&f.text) {
                Ok(a) => a,
                Err(_) => {
                    out.bump("harness.unbuildable");
                    return None;
                }
            };
            match lc3_ensemble::asm::assemble_debug(ast, &f.text) {
                Ok(o) => objs.push(o),
                Err(_) => {
                    out.bump("harness.unbuildable");
                    return None;
                }
            }
        }
        let mut fp = Fp::new();
        let mut loads = 0u32;
        let mut mixed = false;
        for (i, (kind, arg)) in s.history.iter().enumerate() {
            match kind {
                0 => {
                    let k = *arg as usize % files.len();
                    let before: Vec<Word> = (0..=0xFFFFu16).map(|a| sim.mem[a]).collect();
                    let regs_before: Vec<Word> = (0..8).map(|r| sim.reg_file[reg(r)]).collect();
                    let pc_before = sim.pc;
                    match guarded(|| sim.load_obj_file(&objs[k])) {
                        Ok(Ok(())) => {}
                        Ok(Err(e)) => return fail(i, "load-error", format!("load_obj_file failed: {e:?}")),
                        Err(p) => return fail(i, "panic-in-load", p),
                    }
                    loads += 1;
                    let img = &files[k].obj.image;
                    if img.values().any(|v| v.is_some()) && img.values().any(|v| v.is_none()) {
                        mixed = true;
                    }
                    for a in 0..=0xFFFFu16 {
                        let now = sim.mem[a];
                        match img.get(&a) {
                            Some(Some(v)) => {
                                if now.get() != *v || !now.is_init() {
                                    return fail(i, "load-word", format!("file {k}: mem[x{a:04X}] = x{:04X} (init {}), image has x{v:04X}", now.get(), now.is_init()));
                                }
                            }
                            Some(None) => {
                                if now.is_init() {
                                    return fail(i, "load-reserved-initialised", format!("file {k}: reserved word x{a:04X} is reported initialised after the load"));
                                }
                                if now.verif_init_mask() != 0 {
                                    return fail(i, "load-reserved-partly-initialised", format!("file {k}: reserved word x{a:04X} keeps initialisation mask x{:04X} after the load (was x{:04X} before)", now.verif_init_mask(), before[a as usize].verif_init_mask()));
                                }
                            }
                            None => {
                                if now != before[a as usize] {
                                    return fail(i, "load-touched-other", format!("file {k} does not define x{a:04X}, but it changed from (x{:04X}, init {}) to (x{:04X}, init {})", before[a as usize].get(), before[a as usize].is_init(), now.get(), now.is_init()));
                                }
                            }
                        }
                    }
                    for r in 0..8 {
                        if sim.reg_file[reg(r)] != regs_before[r as usize] {
                            return fail(i, "load-touched-register", format!("R{r} changed"));
                        }
                    }
                    if sim.pc != pc_before {
                        return fail(i, "load-touched-pc", format!("pc x{pc_before:04X} -> x{:04X}", sim.pc));
                    }
                    fp.add(k as u64 + 1);
                    if files[k].obj.blocks.iter().any(|(s, l)| *s as u32 + *l as u32 == 0xFE00) {
                        out.bump("probe.block-ends-at-fe00");
                    }
                }
                3 => {
                    // load the result of linking two of the files (an object shape no single assembly produces)
                    let (a, b) = ((*arg as usize) % files.len(), (*arg as usize / 7) % files.len());
                    if a == b {
                        continue;
                    }
                    let Ok(r) = tgen::ref_link(&[&files[a].obj, &files[b].obj]) else { continue };
                    let Ok(Ok(linked)) = guarded(|| lc3_ensemble::asm::ObjectFile::link(objs[a].clone(), objs[b].clone())) else { continue };
                    let before: Vec<Word> = (0..=0xFFFFu16).map(|x| sim.mem[x]).collect();
                    match guarded(|| sim.load_obj_file(&linked)) {
                        Ok(Ok(())) => {}
                        Ok(Err(e)) => return fail(i, "load-error", format!("load_obj_file of link({a},{b}) failed: {e:?}")),
                        Err(p) => return fail(i, "panic-in-load", p),
                    }
                    loads += 1;
                    out.bump("probe.loaded-linked-file");
                    for x in 0..=0xFFFFu16 {
                        let now = sim.mem[x];
                        let ok = match r.image.get(&x) {
                            Some(Some(v)) => now.get() == *v && now.is_init(),
                            Some(None) => now.verif_init_mask() == 0,
                            None => now == before[x as usize],
                        };
                        if !ok {
                            return fail(i, "load-linked", format!("link({a},{b}): mem[x{x:04X}] = (x{:04X}, init {}) after the load; image says {:?}, before the load (x{:04X}, init {})", now.get(), now.is_init(), r.image.get(&x), before[x as usize].get(), before[x as usize].is_init()));
                        }
                    }
                    fp.add(0x300 + a as u64 * 8 + b as u64);
                }
                4 => {
                    // a word whose bits are only partly known (what AND with a constant leaves behind)
                    // sitting where a later load reserves space
                    let k = *arg as usize % files.len();
                    let reserved: Vec<u16> = files[k].obj.image.iter().filter(|(_, v)| v.is_none()).map(|(a, _)| *a).collect();
                    if !reserved.is_empty() {
                        let a = reserved[(*arg as usize / 7) % reserved.len()];
                        let mut m = (*arg >> 16) as u16;
                        if m == 0 || m == 0xFFFF {
                            m = 0x0FF0;
                        }
                        let mut fill = (*arg as u16) | 1;
                        sim.mem[a] = Word::new_uninit(&mut fill) & Word::new_init(m);
                        out.bump("fired.partial-word-under-reserved");
                    }
                    fp.add(0x400);
                }
                6 => {
                    // the same file after a trip through the binary format in which a block of zero words
                    // (legal in the format, never written by the assembler) was added below its first block
                    use lc3_ensemble::asm::encoding::{BinaryFormat, ObjFileFormat};
                    let k = *arg as usize % files.len();
                    let Some(first) = files[k].obj.blocks.keys().next().copied() else { continue };
                    let gap = 1 + (*arg as u16 / 7) % 5;
                    if first < gap {
                        continue;
                    }
                    let at = first - gap;
                    let mut bytes = BinaryFormat::serialize(&objs[k]);
                    if bytes.len() < 7 {
                        continue;
                    }
                    let chunk = [0u8, at as u8, (at >> 8) as u8, 0, 0];
                    let tail = bytes.split_off(7);
                    bytes.extend_from_slice(&chunk);
                    bytes.extend_from_slice(&tail);
                    let Ok(Some(o2)) = guarded(|| BinaryFormat::deserialize(&bytes)) else { continue };
                    let before: Vec<Word> = (0..=0xFFFFu16).map(|x| sim.mem[x]).collect();
                    match guarded(|| sim.load_obj_file(&o2)) {
                        Ok(Ok(())) => {}
                        Ok(Err(e)) => return fail(i, "load-error", format!("load_obj_file of file {k} with an added empty block at x{at:04X} failed: {e:?}")),
                        Err(p) => return fail(i, "panic-in-load", p),
                    }
                    loads += 1;
                    out.bump("probe.loaded-file-with-empty-block");
                    for x in 0..=0xFFFFu16 {
                        let now = sim.mem[x];
                        let ok = match files[k].obj.image.get(&x) {
                            Some(Some(v)) => now.get() == *v && now.is_init(),
                            Some(None) => now.verif_init_mask() == 0,
                            None => now == before[x as usize],
                        };
                        if !ok {
                            return fail(i, "load-after-empty-block", format!("file {k} with an added empty block at x{at:04X}: mem[x{x:04X}] = (x{:04X}, init {}) after the load; image says {:?}", now.get(), now.is_init(), files[k].obj.image.get(&x)));
                        }
                    }
                    fp.add(0x600 + k as u64);
                }
                5 => {
                    // a fully initialised value sitting where a later load reserves space (the program
                    // used its buffer, then the file is loaded again)
                    let k = *arg as usize % files.len();
                    let reserved: Vec<u16> = files[k].obj.image.iter().filter(|(_, v)| v.is_none()).map(|(a, _)| *a).collect();
                    if !reserved.is_empty() {
                        let a = reserved[(*arg as usize / 7) % reserved.len()];
                        sim.mem[a].set((*arg >> 16) as u16);
                        out.bump("fired.initialised-word-under-reserved");
                    }
                    fp.add(0x500);
                }
                1 => {
                    sim.pc = 0x3000 + (*arg as u16 & 0xFF);
                    let _ = guarded(|| sim.run_with_limit(*arg as u64 % 40));
                    fp.add(0x100);
                    out.bump("fired.reload");
                }
                _ => {
                    let a = (*arg >> 16) as u16;
                    sim.mem[a].set(*arg as u16);
                    fp.add(0x200);
                }
            }
        }
        out.sim_time = s.history.len() as u64;
        out.trace = fp.0;
        fp.add_str(&format!("{:?}", s.init));
        if loads >= 1 && mixed {
            out.fingerprint = Some(fp.0 ^ s.files.iter().fold(0, |a, b| a ^ b));
        }
        None
    }
}
impl Check for C29 {
    type Scn = C29Scn;
    fn id(&self) -> &'static str {
        "C29"
    }
    fn meta(&self) -> Meta {
        Meta {
            rule: "Simulator::new under Known(v), Seeded(s) and Unseeded (controlled entropy): OS image words at their addresses (initialised), reserved OS words uninitialised, I/O page zero. Then histories of load_obj_file over 1-3 generated files (1-3 blocks each: at x0000, x0200, user space, ending exactly at xFE00; .fill/.blkw/.stringz/instructions; trailing and interior .blkw; blocks made only of reserved words) interleaved with execution, host pokes and reloads of overlapping files. After every load, full 64Ki diff against (state before the load + the file's independently computed image): initialised words hold their value, reserved words are uninitialised, every other word, every register and the PC are bit-identical (value and init). Non-trivial: >=1 load of a file with both initialised and reserved words.",
            components_real: &["Simulator::new", "load_obj_file / copy_obj_block", "parser + assembler"],
            components_stub: &["tgen independent image (RefObj)", "entropy source"],
            assumptions: &["the OS image expected on a fresh machine is the crate's own assembled OS object file"],
            level: "exploration",
            enumerated: "none",
        }
    }
    fn quick_runs(&self) -> u64 {
        12_000
    }
    fn entropy(&self, s: &C29Scn) -> u64 {
        s.entropy
    }
    fn generate(&self, r: &mut Rng, _t: Tier, _i: u64) -> C29Scn {
        let nf = 1 + r.below(3) as usize;
        let mut history = vec![];
        for _ in 0..1 + r.below(6) {
            history.push(match r.below(7) {
                0..=2 => (0u8, r.below(nf as u64) as u32),
                3 => (1u8, r.below(4000) as u32),
                4 if nf >= 2 => (3u8, r.below(1000) as u32),
                5 => (if r.bool() { 4u8 } else { 5u8 }, (r.u16() as u32) << 16 | r.below(5000) as u32),
                6 if r.bool() => (6u8, r.below(5000) as u32),
                _ => (2u8, (r.u16() as u32) << 16 | r.u16() as u32),
            });
        }
        history.push((0, r.below(nf as u64) as u32));
        C29Scn { entropy: r.next_u64(), init: gen_init(r), files: (0..nf).map(|_| r.next_u64()).collect(), history }
    }
    fn execute(&self, s: &C29Scn) -> Outcome {
        let mut out = Outcome::default();
        let v = self.run(s, &mut out);
        out.violation = v;
        out
    }
    fn shrink(&self, s: &C29Scn) -> Vec<C29Scn> {
        let mut c = vec![];
        for i in (0..s.history.len()).rev() {
            let mut t = s.clone();
            t.history.remove(i);
            c.push(t);
        }
        if s.init != InitS::Known(0) {
            let mut t = s.clone();
            t.init = InitS::Known(0);
            c.push(t);
        }
        c
    }
}

// ===========================================================================
// C15 — initialisation tracking of words is sound (world W + machine arm)

#[derive(Clone, Debug, Serialize, Deserialize, PartialEq)]
pub enum WOp {
    NewUninit(u8),
    NewInit(u8, u16),
    Set(u8, u16),
    ClearInit(u8),
    Add(u8, u8, u8),
    Sub(u8, u8, u8),
    And(u8, u8, u8),
    Not(u8, u8),
    AddAssign(u8, u8),
    SubAssign(u8, u8),
    AndAssign(u8, u8),
    AddU16(u8, u16),
    AddI16(u8, i16),
    SubU16(u8, u16),
    SubI16(u8, i16),
    SetIfInit(u8, u8, bool),
    /// AND with an initialised mask: the way partial masks arise in real programs
    Mask(u8, u16),
}
#[derive(Clone, Debug, Serialize, Deserialize, PartialEq)]
pub struct C15Scn {
    pub entropy: u64,
    pub ops: Vec<WOp>,
    pub stream_seed: u64,
    pub fully_init: bool,
    /// machine arm: program run on two machines with different Seeded seeds
    pub machine: Option<MScn>,
}
pub struct C15;

struct Stream(Rng);
impl WordFiller for Stream {
    fn generate(&mut self) -> u16 {
        self.0.u16()
    }
}

#[cfg(endorpersand_lc3_ensemble_verif)]
fn mask_of(w: &Word) -> u16 {
    w.verif_init_mask()
}
#[cfg(not(endorpersand_lc3_ensemble_verif))]
fn mask_of(w: &Word) -> u16 {
    // without the hook only full / not-full is observable: treat not-full as nothing claimed
    if w.is_init() { 0xFFFF } else { 0 }
}

const G: usize = 6;

fn apply(pool: &mut [Word; 8], op: &WOp, filler: &mut dyn FnMut() -> Word) -> Option<bool> {
    let i = |x: &u8| (*x & 7) as usize;
    match op {
        WOp::NewUninit(d) => pool[i(d)] = filler(),
        WOp::NewInit(d, v) => pool[i(d)] = Word::new_init(*v),
        WOp::Set(d, v) => pool[i(d)].set(*v),
        WOp::ClearInit(d) => pool[i(d)].clear_init(),
        WOp::Add(d, a, b) => pool[i(d)] = pool[i(a)] + pool[i(b)],
        WOp::Sub(d, a, b) => pool[i(d)] = pool[i(a)] - pool[i(b)],
        WOp::And(d, a, b) => pool[i(d)] = pool[i(a)] & pool[i(b)],
        WOp::Not(d, a) => pool[i(d)] = !pool[i(a)],
        WOp::AddAssign(d, a) => {
            let x = pool[i(a)];
            pool[i(d)] += x
        }
        WOp::SubAssign(d, a) => {
            let x = pool[i(a)];
            pool[i(d)] -= x
        }
        WOp::AndAssign(d, a) => {
            let x = pool[i(a)];
            pool[i(d)] &= x
        }
        WOp::AddU16(d, v) => pool[i(d)] += *v,
        WOp::AddI16(d, v) => pool[i(d)] += *v,
        WOp::SubU16(d, v) => pool[i(d)] -= *v,
        WOp::SubI16(d, v) => pool[i(d)] -= *v,
        WOp::SetIfInit(d, a, strict) => {
            let x = pool[i(a)];
            return Some(pool[i(d)].set_if_init(x, *strict, ()).is_ok());
        }
        WOp::Mask(d, m) => pool[i(d)] = pool[i(d)] & Word::new_init(*m),
    }
    None
}

impl C15 {
    fn words(&self, s: &C15Scn, out: &mut Outcome) -> Option<Violation> {
        let mut pools: Vec<[Word; 8]> = vec![[Word::new_init(0); 8]; G];
        let mut streams: Vec<Stream> = (0..4).map(|k| Stream(Rng::new(s.stream_seed.wrapping_add(k * 0x9E37)))).collect();
        // reference values for the fully-initialised arm
        let mut refv = [0u16; 8];
        let mut partial_seen = false;
        let fail = |i: usize, c: &str, d: String| Some(Violation { class: c.to_string(), step: i as u64, detail: format!("op #{i} {:?}: {d}", s.ops[i]) });
        for (i, op) in s.ops.iter().enumerate() {
            for g in 0..G {
                let mut filler: Box<dyn FnMut() -> Word> = match g {
                    0..=3 => {
                        let st: *mut Stream = &mut streams[g];
                        Box::new(move || Word::new_uninit(unsafe { &mut *st }))
                    }
                    4 => Box::new(|| Word::new_uninit(&mut 0u16)),
                    _ => Box::new(|| Word::new_uninit(&mut 0xFFFFu16)),
                };
                if let Err(p) = guarded(|| apply(&mut pools[g], op, &mut *filler)) {
                    return fail(i, "panic", p);
                }
            }
            // invariant (the property verbatim): a bit reported initialised under one choice of the
            // uninitialised bits has the same value under every other choice — whatever the other
            // choice's own mask says. (All streams share the initialised inputs by construction.)
            for slot in 0..8 {
                for a in 0..G {
                    for b in 0..G {
                        if a == b {
                            continue;
                        }
                        let (wa, wb) = (pools[a][slot], pools[b][slot]);
                        let bad = mask_of(&wa) & (wa.get() ^ wb.get());
                        if bad != 0 {
                            return fail(i, "unsound-init-bit", format!("slot {slot}: under garbage stream {a} the word is x{:04X} with mask x{:04X}; under stream {b} it is x{:04X} (mask x{:04X}); bits x{bad:04X} are reported initialised under stream {a} but depend on the garbage", wa.get(), mask_of(&wa), wb.get(), mask_of(&wb)));
                        }
                    }
                }
                let mk = mask_of(&pools[0][slot]);
                if mk != 0 && mk != 0xFFFF {
                    partial_seen = true;
                }
            }
            if s.fully_init {
                let ix = |x: &u8| (*x & 7) as usize;
                match op {
                    WOp::NewInit(d, v) | WOp::Set(d, v) => refv[ix(d)] = *v,
                    WOp::Add(d, a, b) => refv[ix(d)] = refv[ix(a)].wrapping_add(refv[ix(b)]),
                    WOp::Sub(d, a, b) => refv[ix(d)] = refv[ix(a)].wrapping_sub(refv[ix(b)]),
                    WOp::And(d, a, b) => refv[ix(d)] = refv[ix(a)] & refv[ix(b)],
                    WOp::Not(d, a) => refv[ix(d)] = !refv[ix(a)],
                    WOp::AddAssign(d, a) => refv[ix(d)] = refv[ix(d)].wrapping_add(refv[ix(a)]),
                    WOp::SubAssign(d, a) => refv[ix(d)] = refv[ix(d)].wrapping_sub(refv[ix(a)]),
                    WOp::AndAssign(d, a) => refv[ix(d)] &= refv[ix(a)],
                    WOp::AddU16(d, v) => refv[ix(d)] = refv[ix(d)].wrapping_add(*v),
                    WOp::AddI16(d, v) => refv[ix(d)] = refv[ix(d)].wrapping_add(*v as u16),
                    WOp::SubU16(d, v) => refv[ix(d)] = refv[ix(d)].wrapping_sub(*v),
                    WOp::SubI16(d, v) => refv[ix(d)] = refv[ix(d)].wrapping_sub(*v as u16),
                    WOp::SetIfInit(d, a, _) => refv[ix(d)] = refv[ix(a)],
                    WOp::Mask(d, m) => refv[ix(d)] &= *m,
                    WOp::NewUninit(_) | WOp::ClearInit(_) => {}
                }
                for slot in 0..8 {
                    let w = pools[0][slot];
                    if !w.is_init() || mask_of(&w) != 0xFFFF {
                        return fail(i, "full-init-lost", format!("slot {slot} is not fully initialised although every operand was"));
                    }
                    if w.get() != refv[slot] {
                        return fail(i, "wrong-value", format!("slot {slot} = x{:04X}, wrapping 16-bit arithmetic gives x{:04X}", w.get(), refv[slot]));
                    }
                }
            }
        }
        out.sim_time = s.ops.len() as u64;
        let mut fp = Fp::new();
        for op in &s.ops {
            fp.add_str(&format!("{op:?}"));
        }
        out.trace = fp.0;
        if partial_seen || s.fully_init {
            out.fingerprint = Some(fp.0);
        }
        if partial_seen {
            out.bump("probe.partial-mask");
        }
        None
    }

    fn machine(&self, m: &MScn, out: &mut Outcome) -> Option<Violation> {
        let mk = |seed: u64| {
            let mut s = m.clone();
            s.flags.init = InitS::Seeded(seed);
            s.flags.strict = false;
            guarded(|| build(&s))
        };
        let (mut a, mut b) = match (mk(m.entropy ^ 1), mk(m.entropy ^ 2)) {
            (Ok(Ok(a)), Ok(Ok(b))) => (a, b),
            (Err(p), _) | (_, Err(p)) => return Some(Violation { class: "panic-in-setup".into(), step: 0, detail: p }),
            _ => {
                out.bump("harness.unbuildable");
                return None;
            }
        };
        let total: u32 = m.ops.iter().map(|o| if let Op::Step(k) = o { *k } else { 0 }).sum::<u32>().min(m.max_ticks);
        let mut steps = 0u64;
        let chk = |wa: &Word, wb: &Word| (mask_of(wa) | mask_of(wb)) & (wa.get() ^ wb.get());
        for i in 0..total {
            let (ra, rb) = (guarded(|| a.sim.step_in()), guarded(|| b.sim.step_in()));
            let (ra, rb) = match (ra, rb) {
                (Ok(x), Ok(y)) => (x.map_err(|e| err_kind(&e)), y.map_err(|e| err_kind(&e))),
                (Err(p), _) | (_, Err(p)) => return Some(Violation { class: "panic-in-step".into(), step: i as u64, detail: p }),
            };
            steps += 1;
            // compare only while both machines follow the same path
            if a.sim.pc != b.sim.pc || ra != rb || a.sim.psr().get() != b.sim.psr().get() {
                break;
            }
            for k in 0..8 {
                let d = chk(&a.sim.reg_file[reg(k)], &b.sim.reg_file[reg(k)]);
                if d != 0 {
                    return Some(Violation { class: "unsound-init-bit".into(), step: i as u64, detail: format!("machines with different garbage: R{k} = x{:04X} / x{:04X}, bits x{d:04X} reported initialised on both but differ (pc x{:04X})", a.sim.reg_file[reg(k)].get(), b.sim.reg_file[reg(k)].get(), a.sim.pc) });
                }
            }
            let acc: Vec<u16> = a.sim.observer.take_mem_accesses().map(|(x, _)| x).collect();
            for x in acc {
                if x >= 0xFE00 {
                    continue;
                }
                let d = chk(&a.sim.mem[x], &b.sim.mem[x]);
                if d != 0 {
                    return Some(Violation { class: "unsound-init-bit".into(), step: i as u64, detail: format!("machines with different garbage: mem[x{x:04X}] bits x{d:04X} reported initialised on both but differ") });
                }
            }
            if ra.is_err() {
                break;
            }
        }
        a.host.release_all();
        b.host.release_all();
        out.sim_time = steps * 2;
        out.bump("probe.machine-arm");
        let mut fp = Fp::new();
        fp.add(steps);
        fp.add_str(&m.srcs.first().map(|s| s.text.clone()).unwrap_or_default());
        out.trace = fp.0;
        if steps >= 5 {
            out.fingerprint = Some(fp.0);
        }
        None
    }
}

impl Check for C15 {
    type Scn = C15Scn;
    fn id(&self) -> &'static str {
        "C15"
    }
    fn meta(&self) -> Meta {
        Meta {
            rule: "World W: a pool of 8 Words driven by histories of 1-40 public-API operations (new_uninit through the WordFiller seam, new_init, set, clear_init, +, -, &, !, all *Assign forms incl. u16/i16, set_if_init strict/non-strict, AND with initialised masks) replayed under 6 resolutions of the uninitialised bits: 4 PRNG garbage streams plus the all-zeros and all-ones streams. After every operation, for every slot and every pair of streams: mask_a & mask_b & (data_a ^ data_b) == 0 (masks read through the cfg-guarded hook). Fully-initialised arm (1/4): no uninitialised source; every result has mask xFFFF and the wrapping 16-bit value computed by the harness. Machine arm (1/6): the same program on two simulators with different Seeded garbage, same invariant over registers and touched memory while their paths coincide. Non-trivial: the history produced a partially initialised word (or is the fully-initialised / machine arm).",
            components_real: &["Word arithmetic and init tracking", "WordFiller seam", "Simulator (machine arm)"],
            components_stub: &["garbage streams", "wrapping-arithmetic reference"],
            assumptions: &["hook Word::verif_init_mask() returns the tracking mask unchanged"],
            level: "exploration",
            enumerated: "the two extreme garbage streams (all zeros, all ones) are always included: complete witnesses for the bitwise operations",
        }
    }
    fn quick_runs(&self) -> u64 {
        60_000
    }
    fn entropy(&self, s: &C15Scn) -> u64 {
        s.entropy
    }
    fn generate(&self, r: &mut Rng, _t: Tier, _i: u64) -> C15Scn {
        if r.chance(1, 6) {
            // straight-line ALU code only: loads, stores and branches make the *path or address* depend
            // on garbage, which the property (about +, -, AND, NOT on words) does not speak about
            let n = 10 + r.below(50) as usize;
            let g = |r: &mut Rng| r.below(8) as u16;
            let mut words: Vec<u16> = (0..n)
                .map(|_| match r.below(6) {
                    0 => enc::add_r(g(r), g(r), g(r)),
                    1 => enc::add_i(g(r), g(r), r.range(-16, 15) as i16),
                    2 | 3 => enc::and_r(g(r), g(r), g(r)),
                    4 => enc::and_i(g(r), g(r), *r.pick(&[0i16, 1, -1, 15, -16, 7, 8])),
                    _ => enc::not(g(r), g(r)),
                })
                .collect();
            words.push(enc::trap(0x25));
            let mut m = gen_soup(r, "C15", false);
            m.flags = FlagsS { strict: false, real_traps: false, debug_frames: false, ignore_privilege: false, init: InitS::Seeded(0) };
            m.pc = 0x3000;
            m.psr = None;
            m.pokes = vec![(0x3000, words)];
            m.regs.clear();
            for k in 0..8u8 {
                if r.chance(1, 3) {
                    m.regs.push((k, r.u16()));
                }
            }
            m.devs.clear();
            m.srcs.clear();
            m.iregs.clear();
            m.events.clear();
            m.kb = IoSpec::Absent;
            m.disp = IoSpec::Absent;
            m.ops = vec![Op::Step(n as u32 + 1)];
            m.max_ticks = n as u32 + 2;
            return C15Scn { entropy: r.next_u64(), ops: vec![], stream_seed: 0, fully_init: false, machine: Some(m) };
        }
        let fully = r.chance(1, 4);
        let n = 1 + r.below(40);
        let mut ops = vec![];
        let sl = |r: &mut Rng| r.below(8) as u8;
        let val = |r: &mut Rng| if r.chance(1, 3) { *r.pick(&[0u16, 1, 0xFFFF, 0x8000, 0x00FF, 0xFF00]) } else { r.u16() };
        if !fully {
            for k in 0..8 {
                ops.push(if r.chance(2, 3) { WOp::NewUninit(k) } else { WOp::NewInit(k, val(r)) });
            }
        }
        for _ in 0..n {
            let op = match r.below(20) {
                0 if !fully => WOp::NewUninit(sl(r)),
                1 => WOp::NewInit(sl(r), val(r)),
                2 => WOp::Set(sl(r), val(r)),
                3 if !fully => WOp::ClearInit(sl(r)),
                4 | 5 => WOp::Add(sl(r), sl(r), sl(r)),
                6 => WOp::Sub(sl(r), sl(r), sl(r)),
                7 | 8 => WOp::And(sl(r), sl(r), sl(r)),
                9 => WOp::Not(sl(r), sl(r)),
                10 => WOp::AddAssign(sl(r), sl(r)),
                11 => WOp::SubAssign(sl(r), sl(r)),
                12 => WOp::AndAssign(sl(r), sl(r)),
                13 => WOp::AddU16(sl(r), val(r)),
                14 => WOp::AddI16(sl(r), val(r) as i16),
                15 => WOp::SubU16(sl(r), val(r)),
                16 => WOp::SubI16(sl(r), val(r) as i16),
                17 => WOp::SetIfInit(sl(r), sl(r), r.bool()),
                _ => WOp::Mask(sl(r), val(r)),
            };
            ops.push(op);
        }
        C15Scn { entropy: r.next_u64(), ops, stream_seed: r.next_u64(), fully_init: fully, machine: None }
    }
    fn execute(&self, s: &C15Scn) -> Outcome {
        let mut out = Outcome::default();
        let v = match &s.machine {
            Some(m) => self.machine(m, &mut out),
            None => self.words(s, &mut out),
        };
        out.violation = v;
        out
    }
    fn shrink(&self, s: &C15Scn) -> Vec<C15Scn> {
        let mut c = vec![];
        if s.machine.is_some() {
            return c;
        }
        for i in (0..s.ops.len()).rev() {
            let mut t = s.clone();
            t.ops.remove(i);
            c.push(t);
        }
        c
    }
}

#[allow(dead_code)]
fn _keep(_: &dyn ExternalDevice) {}
