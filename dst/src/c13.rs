//! C13 — run, run_with_limit, run_while, step_over, step_out and pauses equal
//! repeated single steps. Differential oracle between two API paths of the real
//! simulator, which is literally what the property states:
//!   A executes the driver script with the real run-style calls;
//!   B executes the same script using only `step_in`, with the documented stop rule
//!     of each call evaluated by the harness after every step;
//!   C (when the script has no pauses of its own) executes one unbroken `run`.
//! All three live in identical worlds; environment events are indexed by
//! instruction boundary (clock ticks), so they land at the same instants iff the
//! calls execute exactly the same instructions.
//! The same machinery provides C28's accumulation arm: the observer after a
//! run-style call must equal the union of the per-step observer sets.

use std::collections::BTreeMap;
use std::sync::atomic::Ordering;

use crate::c16::{op_name, shrink_mscn, sorted};
use crate::env::*;
use crate::genr::*;
use crate::mgen::*;
use crate::mworld::*;
use crate::rng::{Fp, Rng};
use crate::runner::*;

pub struct C13 {
    /// when true this instance reports only observer-accumulation mismatches (C28 arm)
    pub observer_arm: bool,
}

#[derive(Debug, PartialEq, Eq, Clone, Copy)]
enum Stop {
    Halt,
    McrOff,
    Breakpoint,
    Tripwire,
    Err(&'static str),
    /// step_out at depth 0: nothing happens
    Noop,
}

type Acc = BTreeMap<u16, u8>;
fn acc_bits(s: lc3_ensemble::sim::observer::AccessSet) -> u8 {
    s.read() as u8 | (s.written() as u8) << 1 | (s.modified() as u8) << 2
}

fn bp_hit(w: &World, bps: &[BpS]) -> bool {
    bps.iter().any(|b| match b {
        BpS::Pc(a) => w.sim.pc == *a,
        BpS::Reg(r, c) => cmp_check(c, w.sim.reg_file[reg(*r)].get()),
        BpS::Mem(a, c) => cmp_check(c, w.sim.mem[*a].get()),
    })
}

/// Emulates one run-style call on `w` using only step_in.
fn emulate(w: &mut World, op: &Op, bps: &mut Vec<BpS>, acc: &mut Acc, depth: &mut u64) -> Result<Stop, String> {
    let start_count = w.sim.instructions_run;
    // call depth as the harness counts it (calls, traps, interrupt/exception entries minus
    // RET/JMP R7/RTI, saturating) — deliberately not the library's own frame counter
    let start_depth = *depth;
    if matches!(op, Op::StepOut) && start_depth == 0 {
        return Ok(Stop::Noop);
    }
    acc.clear();
    let mcr = w.sim.mcr().clone();
    mcr.store(true, Ordering::Relaxed);
    let mut first = true;
    let mut evals = 0u32;
    let stop = loop {
        if !mcr.load(Ordering::Relaxed) {
            break Stop::McrOff;
        }
        let go = match op {
            Op::Run => true,
            Op::RunLimit(n) => w.sim.instructions_run.wrapping_sub(start_count) < *n,
            Op::RunWhile(Pred::PcNe(a)) => w.sim.pc != *a,
            Op::RunWhile(Pred::RegNe(r, v)) => w.sim.reg_file[reg(*r)].get() != *v,
            Op::RunWhile(Pred::Count(n)) => w.sim.instructions_run.wrapping_sub(start_count) < *n,
            Op::RunWhile(Pred::McrAfter(n)) => {
                evals += 1;
                if evals > *n {
                    mcr.store(false, Ordering::Relaxed);
                }
                true
            }
            Op::RunWhile(Pred::DrainAfter(n)) => {
                evals += 1;
                if evals == *n {
                    // what the host took away is gone; what is recorded from here on must all be there
                    acc.clear();
                }
                true
            }
            Op::RunWhile(Pred::BpAfter(n, b)) => {
                evals += 1;
                if evals == *n && !bps.contains(b) {
                    bps.push(b.clone());
                }
                true
            }
            Op::StepOver => std::mem::take(&mut first) || start_depth < *depth,
            Op::StepOut => std::mem::take(&mut first) || start_depth <= *depth,
            _ => unreachable!(),
        };
        if !go {
            break Stop::Tripwire;
        }
        let (r, halted) = tracked_step(w, depth, acc)?;
        match r {
            Err(k) => break Stop::Err(k),
            Ok(()) => {
                if halted {
                    break Stop::Halt;
                }
            }
        }
        if bp_hit(w, bps) {
            break Stop::Breakpoint;
        }
    };
    mcr.store(false, Ordering::Relaxed);
    Ok(stop)
}

/// One `step_in` on the stepped twin. Classifies what the step did from the instruction word
/// at the old PC and the instruction counter, and maintains the independent call depth.
fn tracked_step(w: &mut World, depth: &mut u64, acc: &mut Acc) -> Result<(Result<(), &'static str>, bool), String> {
    let (c0, pc0, psr0) = (w.sim.instructions_run, w.sim.pc, w.sim.psr().get());
    let word = w.sim.mem[pc0].get();
    let r = guarded(|| w.sim.step_in())?;
    for (a, s) in w.sim.observer.take_mem_accesses() {
        *acc.entry(a).or_insert(0) |= acc_bits(s);
    }
    match r {
        Err(e) => Ok((Err(err_kind(&e)), false)),
        Ok(()) => {
            if w.sim.instructions_run == c0 {
                if w.sim.pc == pc0 && w.sim.psr().get() == psr0 && word == 0xF025 && !w.sim.flags.use_real_traps {
                    // step_in hides a virtual HALT: nothing was counted, the PC rests on the TRAP x25
                    // and the PSR is untouched (an interrupt entry whose handler starts at the old PC
                    // would at least have raised the priority)
                    return Ok((Ok(()), true));
                }
                // interrupt or (real traps) exception entry
                *depth += 1;
            } else {
                match word >> 12 {
                    4 | 15 => *depth += 1,
                    12 if (word >> 6) & 7 == 7 => *depth = depth.saturating_sub(1),
                    8 => *depth = depth.saturating_sub(1),
                    _ => {}
                }
            }
            Ok((Ok(()), false))
        }
    }
}

fn is_drive(op: &Op) -> bool {
    matches!(op, Op::Run | Op::RunLimit(_) | Op::RunWhile(_) | Op::StepOver | Op::StepOut)
}

fn state_diff(a: &mut World, b: &mut World, what: &str) -> Option<(String, String)> {
    if a.sim.pc != b.sim.pc {
        return Some(("pc".into(), format!("{what}: pc x{:04X} vs stepped x{:04X}", a.sim.pc, b.sim.pc)));
    }
    if a.sim.instructions_run != b.sim.instructions_run {
        return Some(("instr-count".into(), format!("{what}: instructions_run {} vs stepped {}", a.sim.instructions_run, b.sim.instructions_run)));
    }
    if a.sim.psr().get() != b.sim.psr().get() {
        return Some(("psr".into(), format!("{what}: psr x{:04X} vs stepped x{:04X}", a.sim.psr().get(), b.sim.psr().get())));
    }
    for k in 0..8 {
        if a.sim.reg_file[reg(k)] != b.sim.reg_file[reg(k)] {
            return Some(("reg".into(), format!("{what}: R{k} x{:04X} vs stepped x{:04X}", a.sim.reg_file[reg(k)].get(), b.sim.reg_file[reg(k)].get())));
        }
    }
    if a.sim.frame_stack.len() != b.sim.frame_stack.len() {
        return Some(("frame-depth".into(), format!("{what}: depth {} vs stepped {}", a.sim.frame_stack.len(), b.sim.frame_stack.len())));
    }
    for x in 0..=0xFFFFu16 {
        if a.sim.mem[x] != b.sim.mem[x] {
            return Some(("mem".into(), format!("{what}: mem[x{x:04X}] x{:04X} vs stepped x{:04X}", a.sim.mem[x].get(), b.sim.mem[x].get())));
        }
    }
    if a.host.shown() != b.host.shown() {
        return Some(("display".into(), format!("{what}: display {:?} vs stepped {:?}", a.host.shown(), b.host.shown())));
    }
    if a.host.kb_contents() != b.host.kb_contents() {
        return Some(("kb-queue".into(), format!("{what}: keyboard queue {:?} vs stepped {:?}", a.host.kb_contents(), b.host.kb_contents())));
    }
    None
}

fn ticks(recs: &[Rec]) -> u64 {
    recs.iter().filter(|r| matches!(r, Rec::Tick { .. })).count() as u64
}

impl C13 {
    fn run(&self, scn: &MScn, out: &mut Outcome) -> Option<Violation> {
        let mut fp = Fp::new();
        let mut tr = Fp::new();
        let (mut a, mut b) = match (build_on(scn, scn.entropy), build_on(scn, scn.entropy)) {
            (Ok(Ok(a)), Ok(Ok(b))) => (a, b),
            (Err(p), _) | (_, Err(p)) => return Some(Violation { class: "panic-in-setup".into(), step: 0, detail: p }),
            _ => {
                out.bump("harness.unbuildable");
                return None;
            }
        };
        let mut bps: Vec<BpS> = vec![];
        let mut calls = 0u64;
        let mut non_halt_stops = 0u64;
        let mut total_ticks = 0u64;
        let mut acc_b: Acc = Acc::new();
        let mut unbroken_ok = true;
        let mut program_halted = false;
        let mut depth_b = 0u64;
        macro_rules! fail {
            ($i:expr, $c:expr, $d:expr) => {{
                a.host.release_all();
                b.host.release_all();
                out.trace = tr.0;
                return Some(Violation { class: $c.to_string(), step: $i as u64, detail: $d });
            }};
        }
        for (i, op) in scn.ops.iter().enumerate() {
            if is_drive(op) {
                calls += 1;
                let _ = a.log.take();
                let _ = b.log.take();
                let ra = match guarded(|| exec_op(&mut a, op)) {
                    Ok(OpRes::Drive(r)) => r,
                    Ok(_) => unreachable!(),
                    Err(p) => fail!(i, format!("panic-in-{}", op_name(op)), p),
                };
                let sb = match emulate(&mut b, op, &mut bps, &mut acc_b, &mut depth_b) {
                    Ok(s) => s,
                    Err(p) => fail!(i, "panic-in-step_in", p),
                };
                let (ta, tb) = (ticks(&a.log.take()), ticks(&b.log.take()));
                total_ticks += ta;
                fp.add_str(op_name(op));
                fp.add_str(&format!("{sb:?}"));
                tr.add(a.sim.pc as u64);
                tr.add(a.sim.instructions_run);
                tr.add(ta);
                let what = format!("after call #{i} {op:?} (stepped twin stopped by {sb:?})");
                if std::env::var_os("VERIF_DEBUG").is_some() {
                    eprintln!("C13 {what}: A pc x{:04X} n {} ticks +{ta}, kb {:?}", a.sim.pc, a.sim.instructions_run, a.host.kb_contents());
                }
                if self.observer_arm {
                    // C28 accumulation arm: only meaningful while the two executions agree
                    if state_diff(&mut a, &mut b, &what).is_some() || ta != tb {
                        out.bump("harness.foreign-divergence");
                        break;
                    }
                    if sb != Stop::Noop {
                        let acc_a: Acc = a.sim.observer.take_mem_accesses().map(|(x, s)| (x, acc_bits(s))).collect();
                        if acc_a != acc_b {
                            let d = acc_a.iter().find(|(k, v)| acc_b.get(k) != Some(v)).map(|(k, v)| format!("x{k:04X}: run-call flags {v:03b}, union of steps {:03b}", acc_b.get(k).copied().unwrap_or(0))).or_else(|| acc_b.iter().find(|(k, _)| !acc_a.contains_key(k)).map(|(k, v)| format!("x{k:04X}: missing after run-call, union of steps {v:03b}"))).unwrap_or_default();
                            fail!(i, "observer-accumulation", format!("{what}: {d}"));
                        }
                        if a.sim.observer.take_mem_accesses().count() != 0 {
                            fail!(i, "observer-not-drained", what);
                        }
                    }
                    if !matches!(sb, Stop::Halt | Stop::Noop) {
                        non_halt_stops += 1;
                    }
                    continue;
                }
                // result
                let expect_res: Result<(), &'static str> = match sb {
                    Stop::Err(k) => Err(k),
                    _ => Ok(()),
                };
                if ra != expect_res {
                    fail!(i, "result", format!("{what}: call returned {ra:?}, repeated steps give {expect_res:?}"));
                }
                if ta != tb {
                    fail!(i, "boundaries", format!("{what}: call consumed {ta} instruction boundaries, repeated steps {tb}"));
                }
                if let Some((c, d)) = state_diff(&mut a, &mut b, &what) {
                    fail!(i, c, d);
                }
                if sb != Stop::Noop {
                    let (hh, hb) = (a.sim.hit_halt(), a.sim.hit_breakpoint());
                    let (eh, eb) = (matches!(sb, Stop::Halt | Stop::McrOff), sb == Stop::Breakpoint);
                    if hh != eh || hb != eb {
                        fail!(i, "pause-reason", format!("{what}: hit_halt()={hh} hit_breakpoint()={hb}, expected {eh}/{eb}"));
                    }
                    if a.sim.mcr().load(Ordering::Relaxed) {
                        fail!(i, "mcr-left-set", what);
                    }
                }
                if !matches!(sb, Stop::Halt | Stop::Noop) {
                    non_halt_stops += 1;
                }
                out.bump(match sb {
                    Stop::Halt => "probe.stop.halt",
                    Stop::McrOff => "fired.mcr-clear",
                    Stop::Breakpoint => "probe.stop.breakpoint",
                    Stop::Tripwire => "probe.stop.tripwire",
                    Stop::Err(_) => "probe.stop.error",
                    Stop::Noop => "probe.stop.noop",
                });
                if matches!(sb, Stop::Err(_)) {
                    unbroken_ok = false;
                }
                // the program has halted (virtual HALT, or the OS halt routine switched the clock
                // off): calls made after that are not segments of the same execution
                let halt_lo = lc3_ensemble::sim::_os_obj_file().symbol_table().and_then(|s| s.lookup_label("TRAP_HALT")).unwrap_or(0);
                // (exactly after the routine's store to MCR: a host/tripwire MCR clear that merely lands
                // inside the routine is a pause, not the halt)
                let _ = halt_lo;
                let wrote_mcr = acc_b.get(&0xFFFE).is_some_and(|f| f & 2 != 0);
                // (whatever ended the call: a breakpoint or limit that matches right after the routine's
                // store to MCR ends the call first, but the program has halted all the same)
                if sb == Stop::Halt || (scn.flags.real_traps && wrote_mcr) {
                    program_halted = true;
                    break;
                }
            } else {
                match op {
                    Op::BpAdd(x) => {
                        if !bps.contains(x) {
                            bps.push(x.clone());
                        }
                        unbroken_ok = false;
                    }
                    Op::BpRemove(x) => bps.retain(|y| y != x),
                    Op::BpClear => bps.clear(),
                    Op::Step(_) => {}
                    _ => unbroken_ok = false,
                }
                let ra = guarded(|| exec_op(&mut a, op));
                let rb = if let Op::Step(n) = op {
                    let mut sink = Acc::new();
                    let mut res = Ok(OpRes::Drive(Ok(())));
                    let halt_rt = lc3_ensemble::sim::_os_obj_file().symbol_table().and_then(|s| s.lookup_label("TRAP_HALT")).unwrap_or(0);
                    for _ in 0..*n {
                        // single steps taken inside the OS halt routine (whatever happens next: the loop
                        // again, an interrupt) are not part of what one unbroken run() executes
                        if scn.flags.real_traps && (halt_rt..halt_rt + 3).contains(&b.sim.pc) {
                            unbroken_ok = false;
                        }
                        match tracked_step(&mut b, &mut depth_b, &mut sink) {
                            Ok((Ok(()), halted)) => {
                                // single steps that sat on a virtual HALT kept polling the devices (timers
                                // count down, interrupts may be taken there): what follows is not a segment
                                // of the execution one unbroken run() performs
                                if halted {
                                    unbroken_ok = false;
                                }
                            }
                            Ok((Err(_), _)) => break,
                            Err(p) => {
                                res = Err(p);
                                break;
                            }
                        }
                    }
                    res
                } else {
                    guarded(|| exec_op(&mut b, op))
                };
                if let (Err(p), _) | (_, Err(p)) = (&ra, &rb) {
                    fail!(i, format!("panic-in-{}", op_name(op)), p.clone());
                }
                if matches!(op, Op::Step(_)) {
                    total_ticks += ticks(&a.log.take());
                    let _ = b.log.take();
                    // single steps that swallowed an error (e.g. an external interrupt), or that walked
                    // into the OS halt routine (a later run() then repeats its loop), are not segments
                    // of the execution one unbroken run() performs
                    let halt_lo = lc3_ensemble::sim::_os_obj_file().symbol_table().and_then(|s| s.lookup_label("TRAP_HALT")).unwrap_or(0);
                    if matches!(ra, Ok(OpRes::Drive(Err(_)))) || (halt_lo..halt_lo + 4).contains(&a.sim.pc) {
                        unbroken_ok = false;
                    }
                    // state after the steps must agree as after any call
                    if !self.observer_arm {
                        if let Some((c, d)) = state_diff(&mut a, &mut b, &format!("after op #{i} {op:?}")) {
                            fail!(i, c, d);
                        }
                    }
                }
            }
        }
        // metamorphic arm: one unbroken run equals the segmented execution
        if !self.observer_arm && unbroken_ok && program_halted && total_ticks < scn.max_ticks as u64 && !scn.events.iter().any(|(_, e)| *e == HostEv::ClearMcr) && !scn.devs.iter().any(|d| matches!(d, DevSpec::Script(s) if !s.mcr_clear.is_empty())) {
            if let Ok(Ok(mut c)) = build_on(scn, scn.entropy) {
                let r = guarded(|| c.sim.run());
                if let Err(p) = r {
                    fail!(scn.ops.len(), "panic-in-run", p);
                }
                out.bump("probe.unbroken-compared");
                if std::env::var_os("VERIF_DEBUG").is_some() {
                    let tc = ticks(&c.log.0.lock().unwrap_or_else(|e| e.into_inner()).recs);
                    eprintln!("C13 unbroken: A pc x{:04X} n {} psr x{:04X} ticks {total_ticks}; C pc x{:04X} n {} psr x{:04X} ticks {tc} r {:?} halt {}", a.sim.pc, a.sim.instructions_run, a.sim.psr().get(), c.sim.pc, c.sim.instructions_run, c.sim.psr().get(), r.as_ref().map(|x| x.is_ok()), c.sim.hit_halt());
                }
                if let Some((cl, d)) = state_diff(&mut a, &mut c, "segmented execution vs one unbroken run()") {
                    fail!(scn.ops.len(), format!("split-{cl}"), d);
                }
                c.host.release_all();
            }
        }
        a.host.release_all();
        b.host.release_all();
        out.sim_time = total_ticks;
        out.trace = tr.0;
        if calls >= 2 && non_halt_stops >= 1 {
            out.fingerprint = Some(fp.0);
        }
        None
    }
}

pub fn gen_c13(r: &mut Rng, profile: &str) -> MScn {
    let end = if r.chance(1, 6) { EndKind::AcvLoad } else { EndKind::Halt };
    let mut s = gen_structured(r, profile, false, end);
    s.flags.ignore_privilege = false;
    let deep = r.deep();
    s.max_ticks = (400 + r.below(1200) as u32) * deep;
    s.ops.clear();
    // MCR cleared by the host at arbitrary instants (i) via the clock, (ii) from a device callback
    if r.chance(1, 3) {
        for _ in 0..1 + r.below(2) {
            s.events.push((r.below(300) as u32, HostEv::ClearMcr));
        }
        s.events.sort_by_key(|e| e.0);
    }
    if r.chance(1, 4) {
        s.devs.push(DevSpec::Script(ScriptSpec { ports: vec![], vect: 0x91, prio: 0, raises: vec![], externals: vec![], read_refuse: vec![], write_refuse: vec![], read_base: 0, mcr_clear: sorted((0..1 + r.below(2)).map(|_| r.below(200) as u32).collect()), wrap: 0 }));
    }
    // the public instruction counter may have any value when a call starts
    if r.chance(1, 8) {
        s.ops.push(Op::SetInstrCount(u64::MAX - r.below(64)));
    }
    let n = (1 + r.below(11)) * deep as u64;
    for _ in 0..n {
        match r.below(16) {
            0 | 1 => s.ops.push(Op::Run),
            2..=4 => s.ops.push(Op::RunLimit(*r.pick(&[0u64, 1, 2, 3, 5, 8, 13, 40, 200, u64::MAX, u64::MAX - 1, 1 << 63]))),
            5 => s.ops.push(Op::RunWhile(Pred::PcNe(0x3000 + r.below(40) as u16))),
            6 => s.ops.push(Op::RunWhile(Pred::RegNe(r.below(6) as u8, r.below(8) as u16))),
            7 => s.ops.push(Op::RunWhile(Pred::Count(r.below(30)))),
            8 => {
                if r.chance(1, 3) {
                    s.ops.push(Op::RunWhile(Pred::DrainAfter(1 + r.below(30) as u32)))
                } else if r.bool() {
                    s.ops.push(Op::RunWhile(Pred::McrAfter(r.below(25) as u32)))
                } else {
                    s.ops.push(Op::RunWhile(Pred::BpAfter(1 + r.below(20) as u32, if r.bool() { BpS::Pc(0x3000 + r.below(48) as u16) } else { BpS::Reg(r.below(6) as u8, Cmp::Le(r.below(6) as u16)) })))
                }
            }
            9 | 10 => s.ops.push(Op::StepOver),
            11 => s.ops.push(Op::StepOut),
            12 => s.ops.push(Op::Step(1 + r.below(5) as u32)),
            13 => s.ops.push(Op::BpAdd(match r.below(4) {
                0 | 1 => BpS::Pc(0x3000 + r.below(48) as u16),
                2 => BpS::Reg(
                    r.below(6) as u8,
                    match r.below(7) {
                        0 => Cmp::Lt(r.below(8) as u16),
                        1 => Cmp::Eq(r.below(8) as u16),
                        2 => Cmp::Le(r.below(4) as u16),
                        3 => Cmp::Gt(0xFFF0 + r.below(16) as u16),
                        4 => Cmp::Ge(0xFFF8),
                        5 => Cmp::Ne(r.u16()),
                        _ => Cmp::Always,
                    },
                ),
                _ => BpS::Mem(0x3000 + r.below(80) as u16, if r.bool() { Cmp::Eq(r.below(4) as u16) } else { Cmp::Lt(r.below(16) as u16) }),
            })),
            14 => s.ops.push(Op::BpClear),
            _ => s.ops.push(Op::RunLimit(1 + r.below(60))),
        }
    }
    // finish the program
    s.ops.push(Op::BpClear);
    s.ops.push(Op::Run);
    s
}

impl Check for C13 {
    type Scn = MScn;
    fn id(&self) -> &'static str {
        if self.observer_arm { "C28b" } else { "C13" }
    }
    fn meta(&self) -> Meta {
        Meta {
            rule: "Generated terminating programs (calls, OS traps, loops, keyboard/display I/O, interrupt sources with handlers, timers, optional fault ending) x real/virtual traps x driver scripts of 2-13 calls over run/run_with_limit(0,1,2,..200)/run_while(pc, register, count, MCR-clearing tripwire)/step_over/step_out/step_in interleaved with breakpoint edits (PC, Reg and Mem with every comparator), MCR cleared by the host clock at arbitrary boundaries and from device poll callbacks mid-call. Twin B replays the script with step_in only under the documented stop rules; after every call: result, boundaries consumed, full state (pc, psr, registers, depth, 64Ki memory, buffers), pause reason, MCR low. Unbroken-run arm when the script has no pauses of its own. Non-trivial: >=2 run-style calls and >=1 stop for a reason other than halt. Distinct: hash of (call kind, stop reason) sequence.",
            components_real: &["Simulator::run/run_with_limit/run_while/step_over/step_out/step_in", "breakpoints", "MCR handle", "devices, OS image, assembler (as C08)"],
            components_stub: &["stop-rule evaluator in the harness (documented conditions)", "ClockDev/ScriptDev/Contended", "entropy source"],
            assumptions: &["step_in itself follows the ISA (C08)", "a step that returns Ok without counting an instruction, entering a frame or moving the PC is a virtual HALT"],
            level: "exploration",
            enumerated: "step limits 0,1,2,3 are always in the draw set; not exhaustive",
        }
    }
    fn quick_runs(&self) -> u64 {
        12_000
    }
    fn entropy(&self, s: &MScn) -> u64 {
        s.entropy
    }
    fn generate(&self, r: &mut Rng, _t: Tier, _i: u64) -> MScn {
        gen_c13(r, if self.observer_arm { "C28b" } else { "C13" })
    }
    fn execute(&self, s: &MScn) -> Outcome {
        let mut out = Outcome::default();
        let v = self.run(s, &mut out);
        out.violation = v;
        out
    }
    fn shrink(&self, s: &MScn) -> Vec<MScn> {
        shrink_mscn(s)
    }
}
