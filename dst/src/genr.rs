//! Generators shared by world-M checks: boundary-biased addresses, instruction
//! words (independent encoder), structured program text.

use crate::rng::Rng;

pub const BOUNDARY: &[u16] = &[
    0x0000, 0x0001, 0x00FF, 0x0100, 0x01FF, 0x0200, 0x02FF, 0x2FFE, 0x2FFF, 0x3000, 0x3001, 0x7FFF, 0x8000, 0xFDFE, 0xFDFF, 0xFE00, 0xFE01, 0xFE02, 0xFE04, 0xFE06, 0xFFFB,
    0xFFFC, 0xFFFD, 0xFFFE, 0xFFFF,
];

pub fn addr_biased(r: &mut Rng) -> u16 {
    match r.below(10) {
        0..=4 => (*r.pick(BOUNDARY)).wrapping_add(r.range(-2, 2) as u16),
        5..=6 => 0x3000u16.wrapping_add(r.below(0x200) as u16),
        7 => r.below(0x3000) as u16,
        _ => r.u16(),
    }
}
pub fn user_addr(r: &mut Rng) -> u16 {
    0x3000 + r.below(0xCE00) as u16
}

/// Independent LC-3 encoder (written from the ISA reference, not from the crate).
pub mod enc {
    pub fn br(nzp: u16, off9: i16) -> u16 {
        (nzp & 7) << 9 | (off9 as u16 & 0x1FF)
    }
    pub fn add_r(dr: u16, sr1: u16, sr2: u16) -> u16 {
        0x1000 | dr << 9 | sr1 << 6 | sr2
    }
    pub fn add_i(dr: u16, sr1: u16, imm5: i16) -> u16 {
        0x1000 | dr << 9 | sr1 << 6 | 0x20 | (imm5 as u16 & 0x1F)
    }
    pub fn and_r(dr: u16, sr1: u16, sr2: u16) -> u16 {
        0x5000 | dr << 9 | sr1 << 6 | sr2
    }
    pub fn and_i(dr: u16, sr1: u16, imm5: i16) -> u16 {
        0x5000 | dr << 9 | sr1 << 6 | 0x20 | (imm5 as u16 & 0x1F)
    }
    pub fn not(dr: u16, sr: u16) -> u16 {
        0x9000 | dr << 9 | sr << 6 | 0x3F
    }
    pub fn ld(dr: u16, off9: i16) -> u16 {
        0x2000 | dr << 9 | (off9 as u16 & 0x1FF)
    }
    pub fn st(sr: u16, off9: i16) -> u16 {
        0x3000 | sr << 9 | (off9 as u16 & 0x1FF)
    }
    pub fn ldi(dr: u16, off9: i16) -> u16 {
        0xA000 | dr << 9 | (off9 as u16 & 0x1FF)
    }
    pub fn sti(sr: u16, off9: i16) -> u16 {
        0xB000 | sr << 9 | (off9 as u16 & 0x1FF)
    }
    pub fn ldr(dr: u16, br: u16, off6: i16) -> u16 {
        0x6000 | dr << 9 | br << 6 | (off6 as u16 & 0x3F)
    }
    pub fn str(sr: u16, br: u16, off6: i16) -> u16 {
        0x7000 | sr << 9 | br << 6 | (off6 as u16 & 0x3F)
    }
    pub fn lea(dr: u16, off9: i16) -> u16 {
        0xE000 | dr << 9 | (off9 as u16 & 0x1FF)
    }
    pub fn jmp(br: u16) -> u16 {
        0xC000 | br << 6
    }
    pub fn jsr(off11: i16) -> u16 {
        0x4800 | (off11 as u16 & 0x7FF)
    }
    pub fn jsrr(br: u16) -> u16 {
        0x4000 | br << 6
    }
    pub fn trap(v: u16) -> u16 {
        0xF000 | (v & 0xFF)
    }
    pub const RTI: u16 = 0x8000;
    pub const RET: u16 = 0xC1C0;
}

fn off(r: &mut Rng, bits: u32) -> i16 {
    let lim = 1i64 << (bits - 1);
    match r.below(6) {
        0 => -lim as i16,
        1 => (lim - 1) as i16,
        2 => 0,
        3 => -1,
        _ => r.range(-lim, lim - 1) as i16,
    }
}

/// A canonical instruction word, all 15 opcodes and operand shapes; `trapv` biases
/// TRAP vectors towards the implemented ones.
pub fn instr_word(r: &mut Rng) -> u16 {
    let rg = |r: &mut Rng| r.below(8) as u16;
    match r.below(22) {
        0 => enc::add_r(rg(r), rg(r), rg(r)),
        1 => enc::add_i(rg(r), rg(r), off(r, 5)),
        2 => enc::and_r(rg(r), rg(r), rg(r)),
        3 => enc::and_i(rg(r), rg(r), off(r, 5)),
        4 => enc::not(rg(r), rg(r)),
        5 => enc::br(r.below(8) as u16, off(r, 9)),
        6 => enc::ld(rg(r), off(r, 9)),
        7 => enc::st(rg(r), off(r, 9)),
        8 => enc::ldi(rg(r), off(r, 9)),
        9 => enc::sti(rg(r), off(r, 9)),
        10 => enc::ldr(rg(r), rg(r), off(r, 6)),
        11 => enc::str(rg(r), rg(r), off(r, 6)),
        12 => enc::lea(rg(r), off(r, 9)),
        13 => enc::jmp(rg(r)),
        14 => enc::jsr(off(r, 11)),
        15 => enc::jsrr(rg(r)),
        16 => enc::RTI,
        17 => enc::trap(*r.pick(&[0x20u16, 0x21, 0x22, 0x23, 0x24, 0x25, 0x25, 0x00, 0x26, 0xFF, 0x80])),
        18 => enc::trap(r.below(256) as u16),
        19 => enc::RET,
        20 => enc::ldr(rg(r), 6, off(r, 6)),
        _ => enc::str(rg(r), 6, off(r, 6)),
    }
}
/// 85 % canonical, 15 % arbitrary / near-canonical (must-be-zero bits set, reserved opcode).
pub fn soup_word(r: &mut Rng) -> u16 {
    match r.below(20) {
        0 => r.u16(),
        1 => 0xD000 | (r.u16() & 0x0FFF),
        2 => instr_word(r) ^ (1 << r.below(12)),
        _ => instr_word(r),
    }
}

pub fn reg_name(n: u16) -> String {
    format!("R{}", n & 7)
}

// ---------------------------------------------------------------------------
// Structured programs rendered as source text (assembled by the real toolchain).

#[derive(Clone, Copy, Debug, PartialEq, Eq)]
pub enum EndKind {
    Halt,
    Reserved,
    NonCanonical,
    Rti,
    AcvLoad,
    AcvStore,
    JumpOut,
    BadTrap,
}

#[derive(Clone, Debug)]
pub struct ProgOpts {
    pub len: usize,
    pub out: bool,
    pub kb: bool,
    pub calls: bool,
    pub stack: bool,
    pub loops: bool,
    pub init_regs: bool,
    pub end: EndKind,
    pub usp: u16,
}
impl ProgOpts {
    pub fn basic(len: usize) -> Self {
        ProgOpts { len, out: true, kb: false, calls: true, stack: true, loops: true, init_regs: true, end: EndKind::Halt, usp: 0xF000 }
    }
}

pub struct Prog {
    pub text: String,
    /// number of keyboard bytes the program consumes (GETC/IN executed once each, not in loops)
    pub keys_needed: usize,
    pub n_subs: usize,
}

fn printable(r: &mut Rng) -> char {
    loop {
        let c = (0x20 + r.below(0x5F) as u8) as char;
        if c != '"' && c != '\\' && c != ';' {
            return c;
        }
    }
}

fn alu(r: &mut Rng, out: &mut Vec<String>) {
    let d = r.below(6);
    let s = r.below(6);
    let t = r.below(6);
    out.push(match r.below(8) {
        // an executed no-op (BR with no condition bits) still is one instruction
        6 => (*r.pick(&["NOP", "NOP", "NOP #3"])).to_string(),
        // the word of the next instruction read as data: the same address is accessed twice in a row
        7 => format!("LD R{d}, #0"),
        0 => format!("ADD R{d}, R{s}, #{}", r.range(-16, 15)),
        1 => format!("ADD R{d}, R{s}, R{t}"),
        2 => format!("AND R{d}, R{s}, R{t}"),
        3 => format!("AND R{d}, R{s}, #{}", r.range(-16, 15)),
        4 => format!("NOT R{d}, R{s}"),
        _ => format!("ADD R{d}, R{d}, #{}", r.range(1, 7)),
    });
}

/// Generates a terminating user program. All loops are counted; GETC/IN appear only
/// in straight-line code so `keys_needed` is exact.
pub fn gen_program(r: &mut Rng, o: &ProgOpts) -> Prog {
    let mut body: Vec<String> = vec![];
    let mut keys = 0usize;
    let n_subs = if o.calls { 1 + r.below(3) as usize } else { 0 };
    let n_data = 3 + r.below(3) as usize;
    let mut lbl = 0usize;
    body.push("LD R6, USP".into());
    if o.init_regs {
        for k in 0..6 {
            body.push(format!("AND R{k}, R{k}, #0"));
            if r.bool() {
                body.push(format!("ADD R{k}, R{k}, #{}", r.range(-16, 15)));
            }
        }
    }
    let mut budget = o.len;
    while budget > 0 {
        budget -= 1;
        match r.below(12) {
            0..=2 => alu(r, &mut body),
            3 => {
                let k = r.below(n_data as u64);
                match r.below(6) {
                    // reserved (.blkw) storage read before anything was stored there: directly and through a pointer
                    4 => body.push(format!("LDI R{}, PB", r.below(6))),
                    5 => body.push(format!("LD R{}, BUF", r.below(6))),
                    0 => body.push(format!("ST R{}, D{k}", r.below(6))),
                    1 => body.push(format!("LD R{}, D{k}", r.below(6))),
                    2 => body.push(format!("LDI R{}, P{k}", r.below(6))),
                    _ => body.push(format!("STI R{}, P{k}", r.below(6))),
                }
            }
            4 => {
                let b = r.below(6);
                let mut x = r.below(6);
                if x == b {
                    x = (x + 1) % 6;
                }
                let off = r.below(4);
                body.push(format!("LEA R{b}, BUF"));
                body.push(format!("STR R{x}, R{b}, #{off}"));
                body.push(format!("LDR R{}, R{b}, #{off}", r.below(6)));
            }
            5 if o.loops => {
                lbl += 1;
                let n = 1 + r.below(4);
                body.push("AND R5, R5, #0".into());
                body.push(format!("ADD R5, R5, #{n}"));
                body.push(format!("L{lbl}"));
                for _ in 0..1 + r.below(3) {
                    let d = r.below(5);
                    let s = r.below(5);
                    body.push(format!("ADD R{d}, R{s}, #{}", r.range(-4, 4)));
                }
                if o.out && r.chance(1, 3) {
                    body.push("LD R0, CH0".into());
                    body.push("OUT".into());
                }
                body.push("ADD R5, R5, #-1".into());
                body.push(format!("BRp L{lbl}"));
            }
            6 => {
                lbl += 1;
                let x = r.below(6);
                body.push(format!("ADD R{x}, R{x}, #0"));
                body.push(format!("BR{} S{lbl}", r.pick(&["n", "z", "p", "nz", "zp", "np"])));
                alu(r, &mut body);
                alu(r, &mut body);
                body.push(format!("S{lbl}"));
            }
            7 if n_subs > 0 => {
                let j = r.below(n_subs as u64);
                if r.bool() {
                    body.push(format!("JSR SUB{j}"));
                } else {
                    body.push(format!("LEA R4, SUB{j}"));
                    body.push("JSRR R4".into());
                }
            }
            8 if o.stack => {
                let x = r.below(6);
                body.push("ADD R6, R6, #-1".into());
                body.push(format!("STR R{x}, R6, #0"));
                alu(r, &mut body);
                body.push(format!("LDR R{}, R6, #0", r.below(6)));
                body.push("ADD R6, R6, #1".into());
            }
            9 if o.out => match r.below(4) {
                0 => {
                    body.push(format!("LD R0, CH{}", r.below(2)));
                    body.push((*r.pick(&["OUT", "PUTC", "TRAP x21"])).into());
                }
                1 => {
                    body.push(format!("LEA R0, STR{}", r.below(2)));
                    body.push((*r.pick(&["PUTS", "TRAP x22"])).into());
                }
                2 => {
                    body.push("LEA R0, PSTR".into());
                    body.push((*r.pick(&["PUTSP", "TRAP x24"])).into());
                }
                _ => {
                    body.push("LEA R0, STR0".into());
                    body.push("PUTS".into());
                }
            },
            10 if o.kb => {
                keys += 1;
                if o.out && r.chance(1, 3) {
                    body.push((*r.pick(&["IN", "TRAP x23"])).into());
                } else {
                    body.push((*r.pick(&["GETC", "TRAP x20"])).into());
                }
                if o.out && r.bool() {
                    body.push("OUT".into());
                }
            }
            _ => alu(r, &mut body),
        }
    }
    match o.end {
        EndKind::Halt => body.push((*r.pick(&["HALT", "HALT", "TRAP x25"])).into()),
        EndKind::Reserved => body.push(format!(".fill x{:04X}", 0xD000 | (r.u16() & 0xFFF))),
        EndKind::NonCanonical => body.push((*r.pick(&[".fill x1018", ".fill x5010", ".fill x8001", ".fill x903E", ".fill xF100", ".fill x4001", ".fill xC001"])).into()),
        EndKind::Rti => body.push("RTI".into()),
        EndKind::AcvLoad => {
            body.push("LD R1, PSUP".into());
            body.push("LDR R0, R1, #0".into());
        }
        EndKind::AcvStore => {
            body.push("LD R1, PSUP".into());
            body.push("STR R0, R1, #0".into());
        }
        EndKind::JumpOut => {
            body.push("LD R1, PSUP".into());
            body.push("JMP R1".into());
        }
        EndKind::BadTrap => body.push(format!("TRAP x{:02X}", *r.pick(&[0x00u16, 0x1F, 0x26, 0x7F, 0xFF]))),
    }
    // safety net: anything falling through ends here
    body.push("HALT".into());
    let mut t = String::from(".orig x3000\n");
    for l in &body {
        let is_label = (l.starts_with('L') || l.starts_with('S')) && !l.contains(' ') && l.len() <= 6 && l[1..].chars().all(|c| c.is_ascii_digit());
        if is_label {
            t.push_str(l);
            t.push('\n');
        } else {
            t.push_str("    ");
            t.push_str(l);
            t.push('\n');
        }
    }
    // data close to the code (9-bit offsets)
    t.push_str(&format!("USP .fill x{:04X}\n", o.usp));
    t.push_str(&format!("PSUP .fill x{:04X}\n", *r.pick(&[0x0000u16, 0x2FFF, 0xFE00, 0xFFFE, 0x0200, 0xFFFF])));
    for k in 0..n_data {
        t.push_str(&format!("D{k} .fill x{:04X}\n", r.u16()));
        t.push_str(&format!("P{k} .fill D{}\n", r.below(n_data as u64)));
    }
    t.push_str("BUF .blkw 4\n");
    t.push_str("PB .fill BUF\n");
    t.push_str(&format!("CH0 .fill x{:04X}\nCH1 .fill x{:04X}\n", 0x21 + r.below(0x5D) as u16, (r.u16() & 0xFF00) | (0x21 + r.below(0x5D) as u16)));
    for k in 0..2 {
        let n = r.below(7) as usize;
        let s: String = (0..n).map(|_| printable(r)).collect();
        t.push_str(&format!("STR{k} .stringz \"{s}\"\n"));
    }
    t.push_str("PSTR");
    let pn = r.below(6) as usize;
    for i in 0..pn {
        let lo = 0x21 + r.below(0x5D) as u16;
        let hi = if i + 1 == pn && r.bool() { 0 } else { 0x21 + r.below(0x5D) as u16 };
        t.push_str(&format!(" .fill x{:04X}\n", hi << 8 | lo));
    }
    t.push_str(" .fill x0000\n");
    for j in 0..n_subs {
        t.push_str(&format!("SUB{j}\n    ADD R6, R6, #-1\n    STR R7, R6, #0\n"));
        let mut sb = vec![];
        for _ in 0..1 + r.below(4) {
            alu(r, &mut sb);
        }
        if j + 1 < n_subs && r.bool() {
            sb.push(format!("JSR SUB{}", j + 1));
        }
        if o.out && r.chance(1, 4) {
            sb.push("LD R0, CH0".into());
            sb.push("OUT".into());
        }
        for l in sb {
            t.push_str("    ");
            t.push_str(&l);
            t.push('\n');
        }
        t.push_str("    LDR R7, R6, #0\n    ADD R6, R6, #1\n    RET\n");
    }
    t.push_str(".end\n");
    Prog { text: t, keys_needed: keys, n_subs }
}

/// Interrupt service routine from the well-behaved template: saves what it uses on R6,
/// does side work in supervisor scratch memory, optionally acknowledges its device
/// (MMIO write) or consumes a keyboard byte, restores, RTI.
pub fn gen_handler(r: &mut Rng, at: u16, ack_port: Option<u16>, read_kbdr: bool, work: usize) -> String {
    let mut t = format!(".orig x{at:04X}\n");
    t.push_str("    ADD R6, R6, #-1\n    STR R0, R6, #0\n    ADD R6, R6, #-1\n    STR R1, R6, #0\n");
    t.push_str("    LD R0, HCNT\n    ADD R0, R0, #1\n    ST R0, HCNT\n");
    for _ in 0..work {
        match r.below(3) {
            0 => t.push_str(&format!("    ADD R1, R0, #{}\n", r.range(-8, 7))),
            1 => t.push_str("    NOT R1, R0\n"),
            _ => t.push_str("    AND R1, R1, R0\n"),
        }
    }
    if read_kbdr {
        t.push_str("    LDI R1, HKBDR\n    ST R1, HKEY\n");
    }
    if ack_port.is_some() {
        t.push_str("    STI R0, HACK\n");
    }
    t.push_str("    LDR R1, R6, #0\n    ADD R6, R6, #1\n    LDR R0, R6, #0\n    ADD R6, R6, #1\n    RTI\n");
    t.push_str("HCNT .fill 0\nHKEY .fill 0\nHKBDR .fill xFE02\n");
    t.push_str(&format!("HACK .fill x{:04X}\n.end\n", ack_port.unwrap_or(0xFE20)));
    t
}
