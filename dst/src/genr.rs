//! Generators shared by world-M checks: boundary-biased addresses, instruction
//! words (independent encoder), structured program text.

use crate::rng::Rng;

pub const BOUNDARY: &[u16] = &[
    0x0000, 0x0001, 0x00FF, 0x0100, 0x01FF, 0x0200, 0x02FF, 0x2FFE, 0x2FFF, 0x3000, 0x3001, 0x7FFF, 0x8000, 0xFDFE, 0xFDFF, 0xFE00, 0xFE01, 0xFE02, 0xFE04, 0xFE06, 0xFFFB,
    0xFFFC, 0xFFFD, 0xFFFE, 0xFFFF,
];

pub fn addr_biased(r: &mut Rng) -> u16 {
    match r.below(10) {
        0..=4 => (*r.pick(BOUNDARY)).wrapping_add(r.range(-2, 2) as u16),
        5..=6 => 0x3000u16.wrapping_add(r.below(0x200) as u16),
        7 => r.below(0x3000) as u16,
        _ => r.u16(),
    }
}
pub fn user_addr(r: &mut Rng) -> u16 {
    0x3000 + r.below(0xCE00) as u16
}

/// Independent LC-3 encoder (written from the ISA reference, not from the crate).
pub mod enc {
    pub fn br(nzp: u16, off9: i16) -> u16 {
        (nzp & 7) << 9 | (off9 as u16 & 0x1FF)
    }
    pub fn add_r(dr: u16, sr1: u16, sr2: u16) -> u16 {
        0x1000 | dr << 9 | sr1 << 6 | sr2
    }
    pub fn add_i(dr: u16, sr1: u16, imm5: i16) -> u16 {
        0x1000 | dr << 9 | sr1 << 6 | 0x20 | (imm5 as u16 & 0x1F)
    }
    pub fn and_r(dr: u16, sr1: u16, sr2: u16) -> u16 {
        0x5000 | dr << 9 | sr1 << 6 | sr2
    }
    pub fn and_i(dr: u16, sr1: u16, imm5: i16) -> u16 {
        0x5000 | dr << 9 | sr1 << 6 | 0x20 | (imm5 as u16 & 0x1F)
    }
    pub fn not(dr: u16, sr: u16) -> u16 {
        0x9000 | dr << 9 | sr << 6 | 0x3F
    }
    pub fn ld(dr: u16, off9: i16) -> u16 {
        0x2000 | dr << 9 | (off9 as u16 & 0x1FF)
    }
    pub fn st(sr: u16, off9: i16) -> u16 {
        0x3000 | sr << 9 | (off9 as u16 & 0x1FF)
    }
    pub fn ldi(dr: u16, off9: i16) -> u16 {
        0xA000 | dr << 9 | (off9 as u16 & 0x1FF)
    }
    pub fn sti(sr: u16, off9: i16) -> u16 {
        0xB000 | sr << 9 | (off9 as u16 & 0x1FF)
    }
    pub fn ldr(dr: u16, br: u16, off6: i16) -> u16 {
        0x6000 | dr << 9 | br << 6 | (off6 as u16 & 0x3F)
    }
    pub fn str(sr: u16, br: u16, off6: i16) -> u16 {
        0x7000 | sr << 9 | br << 6 | (off6 as u16 & 0x3F)
    }
    pub fn lea(dr: u16, off9: i16) -> u16 {
        0xE000 | dr << 9 | (off9 as u16 & 0x1FF)
    }
    pub fn jmp(br: u16) -> u16 {
        0xC000 | br << 6
    }
    pub fn jsr(off11: i16) -> u16 {
        0x4800 | (off11 as u16 & 0x7FF)
    }
    pub fn jsrr(br: u16) -> u16 {
        0x4000 | br << 6
    }
    pub fn trap(v: u16) -> u16 {
        0xF000 | (v & 0xFF)
    }
    pub const RTI: u16 = 0x8000;
    pub const RET: u16 = 0xC1C0;
}

fn off(r: &mut Rng, bits: u32) -> i16 {
    let lim = 1i64 << (bits - 1);
    match r.below(6) {
        0 => -lim as i16,
        1 => (lim - 1) as i16,
        2 => 0,
        3 => -1,
        _ => r.range(-lim, lim - 1) as i16,
    }
}

/// A canonical instruction word, all 15 opcodes and operand shapes; `trapv` biases
/// TRAP vectors towards the implemented ones.
pub fn instr_word(r: &mut Rng) -> u16 {
    let rg = |r: &mut Rng| r.below(8) as u16;
    match r.below(22) {
        0 => enc::add_r(rg(r), rg(r), rg(r)),
        1 => enc::add_i(rg(r), rg(r), off(r, 5)),
        2 => enc::and_r(rg(r), rg(r), rg(r)),
        3 => enc::and_i(rg(r), rg(r), off(r, 5)),
        4 => enc::not(rg(r), rg(r)),
        5 => enc::br(r.below(8) as u16, off(r, 9)),
        6 => enc::ld(rg(r), off(r, 9)),
        7 => enc::st(rg(r), off(r, 9)),
        8 => enc::ldi(rg(r), off(r, 9)),
        9 => enc::sti(rg(r), off(r, 9)),
        10 => enc::ldr(rg(r), rg(r), off(r, 6)),
        11 => enc::str(rg(r), rg(r), off(r, 6)),
        12 => enc::lea(rg(r), off(r, 9)),
        13 => enc::jmp(rg(r)),
        14 => enc::jsr(off(r, 11)),
        15 => enc::jsrr(rg(r)),
        16 => enc::RTI,
        17 => enc::trap(*r.pick(&[0x20u16, 0x21, 0x22, 0x23, 0x24, 0x25, 0x25, 0x00, 0x26, 0xFF, 0x80])),
        18 => enc::trap(r.below(256) as u16),
        19 => enc::RET,
        20 => enc::ldr(rg(r), 6, off(r, 6)),
        _ => enc::str(rg(r), 6, off(r, 6)),
    }
}
/// 85 % canonical, 15 % arbitrary / near-canonical (must-be-zero bits set, reserved opcode).
pub fn soup_word(r: &mut Rng) -> u16 {
    match r.below(20) {
        0 => r.u16(),
        1 => 0xD000 | (r.u16() & 0x0FFF),
        2 => instr_word(r) ^ (1 << r.below(12)),
        _ => instr_word(r),
    }
}

pub fn reg_name(n: u16) -> String {
    format!("R{}", n & 7)
}
