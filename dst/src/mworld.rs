//! World M: scenario description (serialisable, replayable) and the builder that
//! turns a scenario into a real `Simulator` plus its environment.

use std::sync::{Arc, Mutex};

use lc3_ensemble::asm::{assemble, assemble_debug, ObjectFile};
use lc3_ensemble::ast::Reg;
use lc3_ensemble::parse::parse_ast;
use lc3_ensemble::sim::device::TimerDevice;
use lc3_ensemble::sim::mem::MachineInitStrategy;
use lc3_ensemble::sim::{InternalRegister, MemAccessCtx, SimFlags, Simulator};
use serde::{Deserialize, Serialize};

use crate::env::*;

#[derive(Clone, Copy, Debug, Serialize, Deserialize, PartialEq)]
pub enum InitS {
    Unseeded,
    Seeded(u64),
    Known(u16),
}
#[derive(Clone, Copy, Debug, Serialize, Deserialize, PartialEq)]
pub struct FlagsS {
    pub strict: bool,
    pub real_traps: bool,
    pub debug_frames: bool,
    pub ignore_privilege: bool,
    pub init: InitS,
}
impl FlagsS {
    pub fn to_flags(&self) -> SimFlags {
        SimFlags {
            strict: self.strict,
            use_real_traps: self.real_traps,
            debug_frames: self.debug_frames,
            ignore_privilege: self.ignore_privilege,
            machine_init: match self.init {
                InitS::Unseeded => MachineInitStrategy::Unseeded,
                InitS::Seeded(seed) => MachineInitStrategy::Seeded { seed },
                InitS::Known(value) => MachineInitStrategy::Known { value },
            },
        }
    }
}

#[derive(Clone, Debug, Serialize, Deserialize, PartialEq)]
pub enum IoSpec {
    /// slot left as the library's null device
    Absent,
    /// the real buffered device installed directly (host decisions at instruction boundaries)
    Bare,
    /// the real device behind `Contended<D>` (host decisions at each device call)
    Wrapped { hold_calls: Vec<u32>, hold_write: bool },
}

#[derive(Clone, Debug, Serialize, Deserialize, PartialEq)]
pub struct TimerSpec {
    pub seed: Option<u64>,
    pub lo: u32,
    pub hi: u32,
    pub incl: bool,
    pub vect: u8,
    pub prio: u8,
    pub enabled: bool,
}

#[derive(Clone, Debug, Serialize, Deserialize, PartialEq)]
pub enum DevSpec {
    Script(ScriptSpec),
    Timer(TimerSpec),
}

#[derive(Clone, Copy, Debug, Serialize, Deserialize, PartialEq, Eq)]
pub enum IReg {
    PC,
    PSR,
    MCR,
    SavedSP,
}
impl IReg {
    pub fn to_lib(self) -> InternalRegister {
        match self {
            IReg::PC => InternalRegister::PC,
            IReg::PSR => InternalRegister::PSR,
            IReg::MCR => InternalRegister::MCR,
            IReg::SavedSP => InternalRegister::SavedSP,
        }
    }
}

#[derive(Clone, Debug, Serialize, Deserialize, PartialEq)]
pub struct SrcSpec {
    pub text: String,
    pub debug: bool,
}

/// Scenario of world M. Everything an execution depends on is in here.
#[derive(Clone, Debug, Serialize, Deserialize, PartialEq)]
pub struct MScn {
    pub profile: String,
    pub entropy: u64,
    pub flags: FlagsS,
    /// program/handler sources, assembled by the real toolchain and loaded in order
    pub srcs: Vec<SrcSpec>,
    /// host writes of initialised words after loading (addr, words)
    pub pokes: Vec<(u16, Vec<u16>)>,
    pub regs: Vec<(u8, u16)>,
    pub pc: u16,
    /// written through the PSR mapping with the omnipotent context
    pub psr: Option<u16>,
    pub kb: IoSpec,
    pub disp: IoSpec,
    /// custom devices, added after the clock device in this order
    pub devs: Vec<DevSpec>,
    /// extra internal-register mappings (addr, reg)
    pub iregs: Vec<(u16, IReg)>,
    /// host actor schedule: (tick, event), sorted by tick
    pub events: Vec<(u32, HostEv)>,
    /// driver script, interpreted by the check's executor
    pub ops: Vec<Op>,
    pub max_ticks: u32,
}

#[derive(Clone, Debug, Serialize, Deserialize, PartialEq)]
pub enum Cmp {
    Never,
    Lt(u16),
    Eq(u16),
    Le(u16),
    Gt(u16),
    Ne(u16),
    Ge(u16),
    Always,
}
#[derive(Clone, Debug, Serialize, Deserialize, PartialEq)]
pub enum BpS {
    Pc(u16),
    Reg(u8, Cmp),
    Mem(u16, Cmp),
}
#[derive(Clone, Debug, Serialize, Deserialize, PartialEq)]
pub enum Pred {
    /// keep running while pc != addr
    PcNe(u16),
    /// keep running while reg != value
    RegNe(u8, u16),
    /// keep running while fewer than n instructions were run in this call
    Count(u64),
    /// keep running for n tripwire evaluations, then clear MCR from inside the closure and keep returning true
    McrAfter(u32),
    /// keep running; at the n-th tripwire evaluation insert this breakpoint from inside the closure
    BpAfter(u32, BpS),
    /// keep running; at the n-th tripwire evaluation the host drains the access observer
    /// (`take_mem_accesses`) from inside the closure
    DrainAfter(u32),
}

#[derive(Clone, Debug, Serialize, Deserialize, PartialEq)]
pub enum SigS {
    /// standard calling convention with n stack parameters
    Cc(u8),
    /// pass-by-register with these registers
    Regs(Vec<u8>),
}
#[derive(Clone, Debug, Serialize, Deserialize, PartialEq)]
pub enum Op {
    Step(u32),
    Run,
    RunLimit(u64),
    RunWhile(Pred),
    StepOver,
    StepOut,
    SetStrict(bool),
    SetRealTraps(bool),
    SetIgnorePriv(bool),
    SetDebugFrames(bool),
    BpAdd(BpS),
    BpRemove(BpS),
    BpClear,
    Reset,
    Load(usize),
    Poke(u16, u16),
    FlipBits(u16, u16),
    SetPc(u16),
    SetReg(u8, u16),
    HostRead { addr: u16, privileged: bool, effects: bool, track: bool },
    HostWrite { addr: u16, data: u16, privileged: bool, track: bool },
    TimerEnable(usize, bool),
    TimerReset(usize),
    TimerRange(usize, u32, u32, bool),
    Mmap(u16, IReg),
    Munmap(u16),
    QueryAll,
    /// the public `Simulator::call_subroutine`
    CallSub(u16),
    /// the public `instructions_run` counter set by the host
    SetInstrCount(u64),
    SubDef(u16, SigS),
    /// host event applied between drive calls (same events the clock can apply mid-call)
    Host(HostEv),
    /// detach the k-th device of the scenario's `devs` list (chaos histories only: the reference model
    /// has no notion of it)
    RemoveDev(usize),
    /// attach the library's own `NullDevice` at these ports (chaos histories only)
    AddNullDev(Vec<u16>),
}

pub const SSP_PROBE: u16 = 0xFFF0;

pub fn reg(n: u8) -> Reg {
    Reg::try_from(n & 7).unwrap()
}

pub fn assemble_src(s: &SrcSpec) -> Result<ObjectFile, String> {
    let ast = parse_ast(&s.text).map_err(|e| format!("parse: {e:?}"))?;
    if s.debug {
        assemble_debug(ast, &s.text).map_err(|e| format!("asm: {e:?}"))
    } else {
        assemble(ast).map_err(|e| format!("asm: {e:?}"))
    }
}

pub struct World {
    pub sim: Simulator,
    pub log: Log,
    pub host: Host,
    pub timers: Vec<(usize, SharedTimer)>,
    pub objs: Vec<ObjectFile>,
    /// harness device index per `devs` entry (clock is 3, devs[i] is 4+i)
    pub dev_ix: Vec<DevIx>,
    pub kb_present: bool,
    pub disp_present: bool,
}

pub fn omni() -> MemAccessCtx {
    MemAccessCtx::omnipotent()
}

/// Builds the world for a scenario. Returns Err on harness-level failures
/// (source does not assemble), which are never property violations.
pub fn build(scn: &MScn) -> Result<World, String> {
    build_with(scn, None)
}
/// As `build`, optionally reusing already assembled sources (same order as `scn.srcs`).
pub fn build_with(scn: &MScn, pre: Option<&[ObjectFile]>) -> Result<World, String> {
    let log = Log::new();
    log.set_enabled(false);
    let mut sim = Simulator::new(scn.flags.to_flags());

    let mut kb_buf = None;
    let mut disp_buf = None;
    let kb_dev = match &scn.kb {
        IoSpec::Absent => None,
        _ => {
            let (k, b) = new_kb();
            kb_buf = Some(b);
            Some(k)
        }
    };
    let disp_dev = match &scn.disp {
        IoSpec::Absent => None,
        _ => {
            let (d, b) = new_disp();
            disp_buf = Some(b);
            Some(d)
        }
    };
    let host = Host::new(kb_buf, disp_buf);
    host.st().mcr = Some(sim.mcr().clone());
    match (&scn.kb, kb_dev) {
        (IoSpec::Bare, Some(k)) => sim.device_handler.set_keyboard(k),
        (IoSpec::Wrapped { hold_calls, hold_write }, Some(k)) => {
            sim.device_handler.set_keyboard(Contended::new(1, k, log.clone(), host.clone(), Which::Kb, hold_calls.clone(), *hold_write))
        }
        _ => {}
    }
    match (&scn.disp, disp_dev) {
        (IoSpec::Bare, Some(d)) => sim.device_handler.set_display(d),
        (IoSpec::Wrapped { hold_calls, hold_write }, Some(d)) => {
            sim.device_handler.set_display(Contended::new(2, d, log.clone(), host.clone(), Which::Disp, hold_calls.clone(), *hold_write))
        }
        _ => {}
    }

    // clock first: library id 3
    let clock = ClockDev { dev: 3, log: log.clone(), host: host.clone(), events: scn.events.clone(), next: 0, tick: 0, hard_stop: scn.max_ticks };
    let id = sim.device_handler.add_device(clock, &[]).map_err(|_| "clock add failed".to_string())?;
    if id != 3 {
        return Err(format!("clock device got id {id}"));
    }
    let mut timers = vec![];
    let mut dev_ix = vec![];
    for (i, d) in scn.devs.iter().enumerate() {
        let ix = 4 + i as u16;
        dev_ix.push(ix);
        let got = match d {
            DevSpec::Script(s) => {
                let dev = ScriptDev::new(ix, log.clone(), s.clone(), Some(sim.mcr().clone()));
                match s.wrap {
                    1 => sim.device_handler.add_device(Arc::new(std::sync::RwLock::new(dev)), &s.ports).map_err(|_| format!("script device {i}: ports rejected"))?,
                    2 => sim.device_handler.add_device(Arc::new(Mutex::new(dev)), &s.ports).map_err(|_| format!("script device {i}: ports rejected"))?,
                    _ => sim.device_handler.add_device(dev, &s.ports).map_err(|_| format!("script device {i}: ports rejected"))?,
                }
            }
            DevSpec::Timer(t) => {
                let mut td = if t.incl { TimerDevice::new(t.seed, t.lo..=t.hi, t.vect, t.prio) } else { TimerDevice::new(t.seed, t.lo..t.hi, t.vect, t.prio) };
                td.enabled = t.enabled;
                let shared: SharedTimer = Arc::new(Mutex::new(td));
                timers.push((i, shared.clone()));
                let dev = Contended::new(ix, shared, log.clone(), host.clone(), Which::Other, vec![], false);
                sim.device_handler.add_device(dev, &[]).map_err(|_| "timer add failed".to_string())?
            }
        };
        if got != ix {
            return Err(format!("device {i} got id {got}, expected {ix}"));
        }
    }

    let mut objs = vec![];
    for (i, s) in scn.srcs.iter().enumerate() {
        let o = match pre.and_then(|p| p.get(i)) {
            Some(o) => o.clone(),
            None => assemble_src(s)?,
        };
        sim.load_obj_file(&o).map_err(|e| format!("load: {e:?}"))?;
        objs.push(o);
    }
    for (a, ws) in &scn.pokes {
        for (i, w) in ws.iter().enumerate() {
            sim.mem[a.wrapping_add(i as u16)].set(*w);
        }
    }
    for (r, v) in &scn.regs {
        sim.reg_file[reg(*r)].set(*v);
    }
    sim.pc = scn.pc;
    for (a, r) in &scn.iregs {
        sim.mmap_internal(*a, r.to_lib()).map_err(|e| format!("mmap {a:04X}: {e:?}"))?;
    }
    if let Some(p) = scn.psr {
        sim.write_mem(0xFFFC, lc3_ensemble::sim::mem::Word::new_init(p), omni()).map_err(|e| format!("psr write: {e:?}"))?;
    }
    log.set_enabled(true);
    Ok(World { sim, log, host, timers, objs, dev_ix, kb_present: scn.kb != IoSpec::Absent, disp_present: scn.disp != IoSpec::Absent })
}

pub fn err_kind(e: &lc3_ensemble::sim::SimErr) -> &'static str {
    use lc3_ensemble::sim::SimErr::*;
    match e {
        IllegalOpcode => "IllegalOpcode",
        InvalidInstrFormat => "InvalidInstrFormat",
        PrivilegeViolation => "PrivilegeViolation",
        AccessViolation => "AccessViolation",
        UnresolvedExternal(_) => "UnresolvedExternal",
        Interrupt(_) => "Interrupt",
        StrictRegSetUninit => "StrictRegSetUninit",
        StrictMemSetUninit => "StrictMemSetUninit",
        StrictIOSetUninit => "StrictIOSetUninit",
        StrictJmpAddrUninit => "StrictJmpAddrUninit",
        StrictSRAddrUninit => "StrictSRAddrUninit",
        StrictMemAddrUninit => "StrictMemAddrUninit",
        StrictPCCurrUninit => "StrictPCCurrUninit",
        StrictPCNextUninit => "StrictPCNextUninit",
        StrictPSRSetUninit => "StrictPSRSetUninit",
    }
}
pub fn is_strict_err(k: &str) -> bool {
    k.starts_with("Strict")
}

pub fn to_cmp(c: &Cmp) -> lc3_ensemble::sim::debug::Comparator {
    use lc3_ensemble::sim::debug::Comparator as C;
    match *c {
        Cmp::Never => C::Never,
        Cmp::Lt(v) => C::Lt(v),
        Cmp::Eq(v) => C::Eq(v),
        Cmp::Le(v) => C::Le(v),
        Cmp::Gt(v) => C::Gt(v),
        Cmp::Ne(v) => C::Ne(v),
        Cmp::Ge(v) => C::Ge(v),
        Cmp::Always => C::Always,
    }
}
pub fn to_bp(b: &BpS) -> lc3_ensemble::sim::debug::Breakpoint {
    use lc3_ensemble::sim::debug::Breakpoint as B;
    match b {
        BpS::Pc(a) => B::PC(*a),
        BpS::Reg(r, c) => B::Reg { reg: reg(*r), value: to_cmp(c) },
        BpS::Mem(a, c) => B::Mem { addr: *a, value: to_cmp(c) },
    }
}
pub fn cmp_check(c: &Cmp, v: u16) -> bool {
    match *c {
        Cmp::Never => false,
        Cmp::Lt(r) => v < r,
        Cmp::Eq(r) => v == r,
        Cmp::Le(r) => v <= r,
        Cmp::Gt(r) => v > r,
        Cmp::Ne(r) => v != r,
        Cmp::Ge(r) => v >= r,
        Cmp::Always => true,
    }
}

/// Result of applying one driver op to the real simulator.
#[derive(Debug, Clone, PartialEq, Eq)]
pub enum OpRes {
    /// not a drive call (configuration / host action)
    Cfg,
    /// drive call result: Ok or the error kind
    Drive(Result<(), &'static str>),
}

pub fn sig_to_lib(s: &SigS) -> lc3_ensemble::sim::frame::ParameterList {
    use lc3_ensemble::sim::frame::ParameterList as PL;
    match s {
        SigS::Cc(n) => {
            let names: Vec<String> = (0..*n).map(|i| format!("a{i}")).collect();
            let refs: Vec<&str> = names.iter().map(|s| s.as_str()).collect();
            PL::with_calling_convention(&refs)
        }
        SigS::Regs(rs) => {
            let names: Vec<String> = (0..rs.len()).map(|i| format!("a{i}")).collect();
            let ps: Vec<(&str, Reg)> = rs.iter().enumerate().map(|(i, r)| (names[i].as_str(), reg(*r))).collect();
            PL::with_pass_by_register(&ps, None)
        }
    }
}

/// Applies a driver op to the real simulator (no model involved).
pub fn exec_op(w: &mut World, op: &Op) -> OpRes {
    use lc3_ensemble::sim::mem::Word;
    let d = |r: Result<(), lc3_ensemble::sim::SimErr>| OpRes::Drive(r.map_err(|e| err_kind(&e)));
    match op {
        Op::Step(n) => {
            let mut last = Ok(());
            for _ in 0..*n {
                last = w.sim.step_in().map_err(|e| err_kind(&e));
                if last.is_err() {
                    break;
                }
            }
            OpRes::Drive(last)
        }
        Op::Run => d(w.sim.run()),
        Op::RunLimit(n) => d(w.sim.run_with_limit(*n)),
        Op::RunWhile(p) => {
            let start = w.sim.instructions_run;
            let mut evals = 0u32;
            let r = match p.clone() {
                Pred::PcNe(a) => w.sim.run_while(|s| s.pc != a),
                Pred::RegNe(r, v) => w.sim.run_while(|s| s.reg_file[reg(r)].get() != v),
                Pred::Count(n) => w.sim.run_while(|s| s.instructions_run.wrapping_sub(start) < n),
                Pred::McrAfter(n) => w.sim.run_while(|s| {
                    evals += 1;
                    if evals > n {
                        s.mcr().store(false, std::sync::atomic::Ordering::Relaxed);
                    }
                    true
                }),
                Pred::DrainAfter(n) => w.sim.run_while(|s| {
                    evals += 1;
                    if evals == n {
                        let _ = s.observer.take_mem_accesses().count();
                    }
                    true
                }),
                Pred::BpAfter(n, b) => w.sim.run_while(|s| {
                    evals += 1;
                    if evals == n {
                        s.breakpoints.insert(to_bp(&b));
                    }
                    true
                }),
            };
            d(r)
        }
        Op::StepOver => d(w.sim.step_over()),
        Op::StepOut => d(w.sim.step_out()),
        Op::SetStrict(b) => {
            w.sim.flags.strict = *b;
            OpRes::Cfg
        }
        Op::SetRealTraps(b) => {
            w.sim.flags.use_real_traps = *b;
            OpRes::Cfg
        }
        Op::SetIgnorePriv(b) => {
            w.sim.flags.ignore_privilege = *b;
            OpRes::Cfg
        }
        Op::SetDebugFrames(b) => {
            w.sim.flags.debug_frames = *b;
            OpRes::Cfg
        }
        Op::BpAdd(b) => {
            w.sim.breakpoints.insert(to_bp(b));
            OpRes::Cfg
        }
        Op::BpRemove(b) => {
            w.sim.breakpoints.remove(&to_bp(b));
            OpRes::Cfg
        }
        Op::BpClear => {
            w.sim.breakpoints.clear();
            OpRes::Cfg
        }
        Op::Reset => {
            w.sim.reset();
            OpRes::Cfg
        }
        Op::Load(i) => {
            if let Some(o) = w.objs.get(*i) {
                let _ = w.sim.load_obj_file(o);
            }
            OpRes::Cfg
        }
        Op::Poke(a, v) => {
            w.sim.mem[*a].set(*v);
            OpRes::Cfg
        }
        Op::FlipBits(a, m) => {
            let v = w.sim.mem[*a].get();
            // flip value bits, keep init state
            let init = w.sim.mem[*a].is_init();
            w.sim.mem[*a].set(v ^ m);
            if !init {
                w.sim.mem[*a].clear_init();
            }
            OpRes::Cfg
        }
        Op::SetPc(a) => {
            w.sim.pc = *a;
            OpRes::Cfg
        }
        Op::SetReg(r, v) => {
            w.sim.reg_file[reg(*r)].set(*v);
            OpRes::Cfg
        }
        Op::HostRead { addr, privileged, effects, track } => {
            let ctx = MemAccessCtx { privileged: *privileged, strict: false, io_effects: *effects, track_access: *track };
            let _ = w.sim.read_mem(*addr, ctx);
            OpRes::Cfg
        }
        Op::HostWrite { addr, data, privileged, track } => {
            let ctx = MemAccessCtx { privileged: *privileged, strict: false, io_effects: true, track_access: *track };
            let _ = w.sim.write_mem(*addr, Word::new_init(*data), ctx);
            OpRes::Cfg
        }
        Op::TimerEnable(i, b) => {
            if let Some((_, t)) = w.timers.iter().find(|(k, _)| k == i) {
                t.lock().unwrap_or_else(|e| e.into_inner()).enabled = *b;
            }
            OpRes::Cfg
        }
        Op::TimerReset(i) => {
            if let Some((_, t)) = w.timers.iter().find(|(k, _)| k == i) {
                t.lock().unwrap_or_else(|e| e.into_inner()).reset_remaining();
            }
            OpRes::Cfg
        }
        Op::TimerRange(i, lo, hi, incl) => {
            if let Some((_, t)) = w.timers.iter().find(|(k, _)| k == i) {
                let mut g = t.lock().unwrap_or_else(|e| e.into_inner());
                if *incl {
                    g.set_range(*lo..=*hi);
                } else {
                    g.set_range(*lo..*hi);
                }
            }
            OpRes::Cfg
        }
        Op::Mmap(a, r) => {
            let _ = w.sim.mmap_internal(*a, r.to_lib());
            OpRes::Cfg
        }
        Op::Munmap(a) => {
            let _ = w.sim.munmap_internal(*a);
            OpRes::Cfg
        }
        Op::SetInstrCount(v) => {
            w.sim.instructions_run = *v;
            OpRes::Cfg
        }
        Op::CallSub(a) => {
            let _ = w.sim.call_subroutine(*a);
            OpRes::Cfg
        }
        Op::QueryAll => {
            let _ = w.sim.prefetch_pc();
            let _ = w.sim.frame_stack.frames().map(|f| f.len());
            let _ = w.sim.frame_stack.len();
            let _ = w.sim.default_mem_ctx();
            let _ = w.sim.hit_halt();
            let _ = w.sim.hit_breakpoint();
            let _ = w.sim.psr().get();
            // the state's own printers are queries too
            let _ = format!("{:?} {:?} {:?}", w.sim.psr(), w.sim.reg_file, w.sim.frame_stack);
            let _ = w.sim.observer.take_mem_accesses().count();
            OpRes::Cfg
        }
        Op::SubDef(a, s) => {
            w.sim.frame_stack.set_subroutine_def(*a, sig_to_lib(s));
            OpRes::Cfg
        }
        Op::Host(ev) => {
            w.host.apply(ev);
            OpRes::Cfg
        }
        Op::AddNullDev(ports) => {
            let _ = w.sim.device_handler.add_device(lc3_ensemble::sim::device::NullDevice, ports);
            OpRes::Cfg
        }
        Op::RemoveDev(k) => {
            // scenario devices follow the keyboard, the display and the clock in the handler's table
            if let Some(ix) = w.dev_ix.get(*k) {
                let _ = w.sim.device_handler.remove_device(*ix as u16);
            }
            OpRes::Cfg
        }
    }
}

/// Builds the world on a fresh OS thread under the given ambient entropy, so that
/// several worlds of one scenario (twins) are bit-identical even for
/// `MachineInitStrategy::Unseeded` and unseeded timers.
pub fn build_on(scn: &MScn, entropy: u64) -> Result<Result<World, String>, String> {
    struct SendWorld(Result<World, String>);
    // SAFETY: the world is handed over before anything else touches it; no guard is held at build time.
    unsafe impl Send for SendWorld {}
    let r = std::thread::scope(|s| {
        std::thread::Builder::new()
            .stack_size(8 << 20)
            .spawn_scoped(s, || {
                crate::entropy::set_thread_entropy(entropy);
                SendWorld(build(scn))
            })
            .expect("spawn")
            .join()
    });
    match r {
        Ok(w) => Ok(w.0),
        Err(p) => Err(crate::runner::panic_msg(&p)),
    }
}
