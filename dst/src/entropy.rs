//! Seam N6: OS entropy.
//!
//! The harness binary defines the C symbol `getrandom`. std's `RandomState`
//! (HashMap/HashSet keys) looks the symbol up as a weak symbol, and the
//! `getrandom` crate (behind `rand::random`, `StdRng::from_os_rng`) calls it through
//! libc, so both bind to this definition. It returns bytes derived from a
//! per-thread seed owned by the simulator. Each simulated run (and each simulated
//! "process" in world T) executes on a fresh OS thread, so its `RandomState` keys
//! and `ThreadRng` are functions of that seed only.

use std::cell::Cell;

use crate::rng::splitmix;

thread_local! {
    static ENT: Cell<u64> = const { Cell::new(0x5EED_0F_E27_0B1A5) };
    static CALLS: Cell<u64> = const { Cell::new(0) };
}

#[unsafe(no_mangle)]
pub unsafe extern "C" fn getrandom(buf: *mut libc::c_void, len: libc::size_t, _flags: libc::c_uint) -> libc::ssize_t {
    let out = unsafe { std::slice::from_raw_parts_mut(buf as *mut u8, len) };
    ENT.with(|e| {
        let mut st = e.get();
        for chunk in out.chunks_mut(8) {
            let v = splitmix(&mut st).to_le_bytes();
            chunk.copy_from_slice(&v[..chunk.len()]);
        }
        e.set(st);
    });
    CALLS.with(|c| c.set(c.get() + 1));
    len as libc::ssize_t
}

pub fn set_thread_entropy(seed: u64) {
    ENT.with(|e| e.set(seed ^ 0xA076_1D64_78BD_642F));
}
pub fn calls() -> u64 {
    CALLS.with(|c| c.get())
}

/// Runs `f` on a fresh OS thread whose ambient entropy is `seed`.
pub fn on_fresh_thread<T: Send + 'static>(seed: u64, f: impl FnOnce() -> T + Send + 'static) -> std::thread::Result<T> {
    std::thread::Builder::new()
        .stack_size(8 << 20)
        .spawn(move || {
            set_thread_entropy(seed);
            f()
        })
        .expect("spawn")
        .join()
}

/// Probe: std HashMap iteration order must be a function of the entropy seed.
/// Returns Err if the interposition is not in effect (then nothing would replay).
pub fn probe() -> Result<(), String> {
    fn order(seed: u64) -> (Vec<u32>, u64) {
        on_fresh_thread(seed, || {
            let mut m = std::collections::HashMap::new();
            for i in 0..64u32 {
                m.insert(i, ());
            }
            (m.keys().copied().collect::<Vec<_>>(), calls())
        })
        .unwrap()
    }
    let (a1, c1) = order(1);
    let (a2, _) = order(1);
    let (b, _) = order(2);
    if c1 == 0 {
        return Err("getrandom interposition not bound: std did not call the harness symbol".into());
    }
    if a1 != a2 {
        return Err("HashMap order differs under equal entropy seeds".into());
    }
    if a1 == b {
        return Err("HashMap order identical under different entropy seeds".into());
    }
    // rand crate path
    let r = |seed| {
        on_fresh_thread(seed, || {
            let s = lc3_ensemble::sim::Simulator::new(Default::default());
            (s.mem[0x3000].get(), s.reg_file[lc3_ensemble::ast::Reg::R0].get())
        })
        .unwrap()
    };
    let (x1, x2, y) = (r(7), r(7), r(8));
    if x1 != x2 || x1 == y {
        return Err(format!("Unseeded machine init not controlled by entropy seed: {x1:?} {x2:?} {y:?}"));
    }
    Ok(())
}
