//! World M environment: simulator-owned devices behind the `ExternalDevice` seam,
//! the host actor (clock device), lock holds on the real keyboard/display
//! buffers taken on the same OS thread, and the totally ordered environment log.

use std::collections::VecDeque;
use std::sync::atomic::Ordering;
use std::sync::{Arc, Mutex, RwLock, RwLockReadGuard, RwLockWriteGuard};

use lc3_ensemble::sim::device::{BufferedDisplay, BufferedKeyboard, ExternalDevice, Interrupt, TimerDevice};
use lc3_ensemble::sim::MCR;
use serde::{Deserialize, Serialize};

pub type KbBuf = Arc<RwLock<VecDeque<u8>>>;
pub type DispBuf = Arc<RwLock<Vec<u8>>>;

/// Harness device index: 1 = keyboard slot, 2 = display slot, 3.. = custom in add order
/// (this mirrors the ids the library hands out, which C32 checks separately).
pub type DevIx = u16;

#[derive(Clone, Copy, Debug, PartialEq, Eq, Serialize, Deserialize)]
pub enum PollRes {
    None,
    Vect(u8, u8),
    External,
}

#[derive(Clone, Debug, PartialEq, Eq, Serialize, Deserialize)]
pub enum HostEv {
    PushKeys(Vec<u8>),
    DrainDisplay,
    /// the host withdraws the type-ahead: everything still queued in the keyboard buffer is dropped
    ClearKeys,
    HoldKb { write: bool },
    ReleaseKb,
    HoldDisp { write: bool },
    ReleaseDisp,
    PoisonKb,
    PoisonDisp,
    ClearMcr,
}

/// One entry of the environment log. The log is the total order of everything the
/// environment did to, or was asked by, the system during a drive call.
#[derive(Clone, Debug, PartialEq, Eq)]
pub enum Rec {
    Poll { dev: DevIx, res: PollRes, held: bool },
    Read { dev: DevIx, addr: u16, eff: bool, res: Option<u16>, held: bool },
    Write { dev: DevIx, addr: u16, data: u16, res: bool, held: bool },
    IoReset { dev: DevIx },
    Host { tick: u32, ev: HostEv },
    Tick { tick: u32 },
}

#[derive(Default)]
pub struct LogInner {
    pub recs: Vec<Rec>,
    pub enabled: bool,
}
#[derive(Clone)]
pub struct Log(pub Arc<Mutex<LogInner>>);
impl Log {
    pub fn new() -> Self {
        Log(Arc::new(Mutex::new(LogInner { recs: vec![], enabled: true })))
    }
    pub fn push(&self, r: Rec) {
        let mut g = self.0.lock().unwrap_or_else(|e| e.into_inner());
        if g.enabled {
            g.recs.push(r);
        }
    }
    pub fn take(&self) -> Vec<Rec> {
        std::mem::take(&mut self.0.lock().unwrap_or_else(|e| e.into_inner()).recs)
    }
    pub fn set_enabled(&self, on: bool) {
        self.0.lock().unwrap_or_else(|e| e.into_inner()).enabled = on;
    }
}

// ---------------------------------------------------------------------------
// Lock holds (seam N3): real guards held by the simulated host on this thread.

enum Guard<T: 'static> {
    R(#[allow(dead_code)] RwLockReadGuard<'static, T>),
    W(#[allow(dead_code)] RwLockWriteGuard<'static, T>),
}
pub struct Hold<T: 'static> {
    guard: Option<Guard<T>>, // declared before `arc`: dropped first
    arc: Arc<RwLock<T>>,
}
impl<T: Send + Sync + 'static> Hold<T> {
    pub fn new(arc: Arc<RwLock<T>>) -> Self {
        Hold { guard: None, arc }
    }
    pub fn is_held(&self) -> bool {
        self.guard.is_some()
    }
    pub fn acquire(&mut self, write: bool) {
        if self.guard.is_some() {
            return;
        }
        // SAFETY: the guard borrows the RwLock inside `self.arc`, which this struct keeps
        // alive and which is dropped after the guard (field order). Single-threaded use.
        unsafe {
            let l: &'static RwLock<T> = &*Arc::as_ptr(&self.arc);
            self.guard = Some(if write {
                Guard::W(l.write().unwrap_or_else(|e| e.into_inner()))
            } else {
                Guard::R(l.read().unwrap_or_else(|e| e.into_inner()))
            });
        }
    }
    pub fn release(&mut self) {
        self.guard = None;
    }
    /// Reads the protected value whether or not the host currently holds the lock.
    pub fn with<R>(&self, f: impl FnOnce(&T) -> R) -> R {
        match &self.guard {
            Some(Guard::R(g)) => f(g),
            Some(Guard::W(g)) => f(g),
            None => f(&self.arc.read().unwrap_or_else(|e| e.into_inner())),
        }
    }
    pub fn with_mut<R>(&mut self, f: impl FnOnce(&mut T) -> R) -> R {
        match &mut self.guard {
            Some(Guard::W(g)) => f(g),
            Some(Guard::R(_)) => {
                // upgrade: release read, mutate, re-take read (host side only; single thread)
                self.guard = None;
                let r = f(&mut self.arc.write().unwrap_or_else(|e| e.into_inner()));
                self.acquire(false);
                r
            }
            None => f(&mut self.arc.write().unwrap_or_else(|e| e.into_inner())),
        }
    }
    pub fn poison(&mut self) {
        let was = self.guard.take().map(|g| matches!(g, Guard::W(_)));
        let a = self.arc.clone();
        let _ = std::thread::spawn(move || {
            let _g = a.write().unwrap_or_else(|e| e.into_inner());
            std::panic::resume_unwind(Box::new("poison"));
        })
        .join();
        if let Some(w) = was {
            self.acquire(w);
        }
    }
}

/// Host-side state shared between the harness and the clock device.
pub struct HostState {
    pub kb: Option<Hold<VecDeque<u8>>>,
    pub disp: Option<Hold<Vec<u8>>>,
    pub drained: Vec<u8>,
    pub mcr: Option<MCR>,
}
pub struct HostBox(std::cell::UnsafeCell<HostState>);
// SAFETY: a run is single-threaded; the box is only touched by the run's own thread.
unsafe impl Send for HostBox {}
unsafe impl Sync for HostBox {}
#[derive(Clone)]
pub struct Host(pub Arc<HostBox>);
impl Host {
    pub fn new(kb: Option<KbBuf>, disp: Option<DispBuf>) -> Self {
        Host(Arc::new(HostBox(std::cell::UnsafeCell::new(HostState {
            kb: kb.map(Hold::new),
            disp: disp.map(Hold::new),
            drained: vec![],
            mcr: None,
        }))))
    }
    #[allow(clippy::mut_from_ref)]
    pub fn st(&self) -> &mut HostState {
        unsafe { &mut *self.0.0.get() }
    }
    pub fn apply(&self, ev: &HostEv) {
        let st = self.st();
        match ev {
            HostEv::PushKeys(bs) => {
                if let Some(k) = st.kb.as_mut() {
                    k.with_mut(|q| q.extend(bs.iter().copied()));
                }
            }
            HostEv::ClearKeys => {
                if let Some(k) = st.kb.as_mut() {
                    k.with_mut(|q| q.clear());
                }
            }
            HostEv::DrainDisplay => {
                if let Some(d) = st.disp.as_mut() {
                    let bytes = d.with_mut(std::mem::take);
                    st.drained.extend(bytes);
                }
            }
            HostEv::HoldKb { write } => {
                if let Some(k) = st.kb.as_mut() {
                    k.acquire(*write)
                }
            }
            HostEv::ReleaseKb => {
                if let Some(k) = st.kb.as_mut() {
                    k.release()
                }
            }
            HostEv::HoldDisp { write } => {
                if let Some(d) = st.disp.as_mut() {
                    d.acquire(*write)
                }
            }
            HostEv::ReleaseDisp => {
                if let Some(d) = st.disp.as_mut() {
                    d.release()
                }
            }
            HostEv::PoisonKb => {
                if let Some(k) = st.kb.as_mut() {
                    k.poison()
                }
            }
            HostEv::PoisonDisp => {
                if let Some(d) = st.disp.as_mut() {
                    d.poison()
                }
            }
            HostEv::ClearMcr => {
                if let Some(m) = &st.mcr {
                    m.store(false, Ordering::Relaxed);
                }
            }
        }
    }
    pub fn kb_contents(&self) -> Vec<u8> {
        self.st().kb.as_ref().map(|k| k.with(|q| q.iter().copied().collect())).unwrap_or_default()
    }
    /// Everything the display has shown so far (drained by the host ++ still buffered).
    pub fn shown(&self) -> Vec<u8> {
        let st = self.st();
        let mut v = st.drained.clone();
        if let Some(d) = st.disp.as_ref() {
            d.with(|b| v.extend_from_slice(b));
        }
        v
    }
    pub fn release_all(&self) {
        let st = self.st();
        if let Some(k) = st.kb.as_mut() {
            k.release()
        }
        if let Some(d) = st.disp.as_mut() {
            d.release()
        }
    }
}

// ---------------------------------------------------------------------------
// Clock device: the host actor. Polled once per instruction boundary like every
// device; applies the host events scheduled for that tick. Tick k = the k-th
// boundary since the world was built (0-based).

pub struct ClockDev {
    pub dev: DevIx,
    pub log: Log,
    pub host: Host,
    pub events: Vec<(u32, HostEv)>, // sorted by tick
    pub next: usize,
    pub tick: u32,
    /// harness safety cap: from this tick on, the clock clears MCR at every poll so that
    /// every run-style call terminates (the model mirrors it; it is logged like any event)
    pub hard_stop: u32,
}
impl ExternalDevice for ClockDev {
    fn io_read(&mut self, _addr: u16, _eff: bool) -> Option<u16> {
        None
    }
    fn io_write(&mut self, _addr: u16, _data: u16) -> bool {
        false
    }
    fn io_reset(&mut self) {
        self.log.push(Rec::IoReset { dev: self.dev });
    }
    fn poll_interrupt(&mut self) -> Option<Interrupt> {
        let t = self.tick;
        self.tick += 1;
        self.log.push(Rec::Tick { tick: t });
        while self.next < self.events.len() && self.events[self.next].0 <= t {
            let ev = self.events[self.next].1.clone();
            self.next += 1;
            self.host.apply(&ev);
            self.log.push(Rec::Host { tick: t, ev });
        }
        if t >= self.hard_stop {
            self.host.apply(&HostEv::ClearMcr);
            self.log.push(Rec::Host { tick: t, ev: HostEv::ClearMcr });
        }
        None
    }
}

// ---------------------------------------------------------------------------
// Scripted device: interrupt source + recording MMIO device.

#[derive(Clone, Debug, Default, Serialize, Deserialize, PartialEq)]
pub struct ScriptSpec {
    pub ports: Vec<u16>,
    pub vect: u8,
    pub prio: u8,
    /// (poll index, level): edge = `Some` at exactly that poll; level = `Some` at every
    /// poll from that one until a write arrives at `ports[0]` (the acknowledge port).
    pub raises: Vec<(u32, bool)>,
    pub externals: Vec<u32>,
    /// indices (over this device's reads / writes) at which the device refuses
    pub read_refuse: Vec<u32>,
    pub write_refuse: Vec<u32>,
    pub read_base: u16,
    /// poll indices at which the callback clears the shared MCR (seam N5, mid-call)
    pub mcr_clear: Vec<u32>,
    /// how the device is handed to the simulator: 0 = directly, 1 = behind the library's
    /// `Arc<RwLock<D>>` adapter, 2 = behind its `Arc<Mutex<D>>` adapter (both use try-locks)
    #[serde(default)]
    pub wrap: u8,
}

#[derive(Debug)]
struct ExtErr;
impl std::fmt::Display for ExtErr {
    fn fmt(&self, f: &mut std::fmt::Formatter<'_>) -> std::fmt::Result {
        f.write_str("scripted external interrupt")
    }
}
impl std::error::Error for ExtErr {}

pub struct ScriptDev {
    pub dev: DevIx,
    pub log: Log,
    pub spec: ScriptSpec,
    pub mcr: Option<MCR>,
    polls: u32,
    reads: u32,
    writes: u32,
    level_pending: bool,
}
impl ScriptDev {
    pub fn new(dev: DevIx, log: Log, spec: ScriptSpec, mcr: Option<MCR>) -> Self {
        ScriptDev { dev, log, spec, mcr, polls: 0, reads: 0, writes: 0, level_pending: false }
    }
}
impl ExternalDevice for ScriptDev {
    fn io_read(&mut self, addr: u16, eff: bool) -> Option<u16> {
        let n = self.reads;
        self.reads += 1;
        let res = if self.spec.read_refuse.contains(&n) {
            None
        } else {
            Some(self.spec.read_base.wrapping_add((n as u16).wrapping_mul(0x0107)).wrapping_add(addr.rotate_left(3)))
        };
        self.log.push(Rec::Read { dev: self.dev, addr, eff, res, held: false });
        res
    }
    fn io_write(&mut self, addr: u16, data: u16) -> bool {
        let n = self.writes;
        self.writes += 1;
        let res = !self.spec.write_refuse.contains(&n);
        if res && self.spec.ports.first() == Some(&addr) {
            self.level_pending = false;
        }
        self.log.push(Rec::Write { dev: self.dev, addr, data, res, held: false });
        res
    }
    fn io_reset(&mut self) {
        self.log.push(Rec::IoReset { dev: self.dev });
    }
    fn poll_interrupt(&mut self) -> Option<Interrupt> {
        let n = self.polls;
        self.polls += 1;
        if self.spec.mcr_clear.contains(&n) {
            if let Some(m) = &self.mcr {
                m.store(false, Ordering::Relaxed);
            }
        }
        let mut edge = false;
        for &(at, level) in &self.spec.raises {
            if at == n {
                if level {
                    self.level_pending = true;
                } else {
                    edge = true;
                }
            }
        }
        let (res, int) = if self.spec.externals.contains(&n) {
            (PollRes::External, Some(Interrupt::external(ExtErr)))
        } else if edge || self.level_pending {
            (PollRes::Vect(self.spec.vect, self.spec.prio.min(7)), Some(Interrupt::vectored(self.spec.vect, self.spec.prio)))
        } else {
            (PollRes::None, None)
        };
        self.log.push(Rec::Poll { dev: self.dev, res, held: false });
        int
    }
}

// ---------------------------------------------------------------------------
// Contended<D>: pass-through wrapper around a real device. Before each call the
// host may take the device's buffer lock for exactly that call (the finest
// interleaving a second thread could achieve: every device call makes exactly
// one lock attempt). Also records the call.

#[derive(Clone, Copy)]
pub enum Which {
    Kb,
    Disp,
    Other,
}
pub struct Contended<D: ExternalDevice> {
    pub dev: DevIx,
    pub inner: D,
    pub log: Log,
    pub host: Host,
    pub which: Which,
    /// call indices (over all calls into this device) during which the host holds the lock
    pub hold_calls: Vec<u32>,
    pub hold_write: bool,
    calls: u32,
}
impl<D: ExternalDevice> Contended<D> {
    pub fn new(dev: DevIx, inner: D, log: Log, host: Host, which: Which, hold_calls: Vec<u32>, hold_write: bool) -> Self {
        Contended { dev, inner, log, host, which, hold_calls, hold_write, calls: 0 }
    }
    fn around<R>(&mut self, f: impl FnOnce(&mut D) -> R) -> (R, bool) {
        let n = self.calls;
        self.calls += 1;
        let want = self.hold_calls.binary_search(&n).is_ok();
        let st = self.host.st();
        let (already, mut took) = (
            match self.which {
                Which::Kb => st.kb.as_ref().is_some_and(|h| h.is_held()),
                Which::Disp => st.disp.as_ref().is_some_and(|h| h.is_held()),
                Which::Other => false,
            },
            false,
        );
        if want && !already {
            match self.which {
                Which::Kb => {
                    if let Some(h) = st.kb.as_mut() {
                        h.acquire(self.hold_write);
                        took = true;
                    }
                }
                Which::Disp => {
                    if let Some(h) = st.disp.as_mut() {
                        h.acquire(self.hold_write);
                        took = true;
                    }
                }
                Which::Other => {}
            }
        }
        let r = f(&mut self.inner);
        if took {
            match self.which {
                Which::Kb => st.kb.as_mut().unwrap().release(),
                Which::Disp => st.disp.as_mut().unwrap().release(),
                Which::Other => {}
            }
        }
        (r, already || took)
    }
}
impl<D: ExternalDevice> ExternalDevice for Contended<D> {
    fn io_read(&mut self, addr: u16, eff: bool) -> Option<u16> {
        let (res, held) = self.around(|d| d.io_read(addr, eff));
        self.log.push(Rec::Read { dev: self.dev, addr, eff, res, held });
        res
    }
    fn io_write(&mut self, addr: u16, data: u16) -> bool {
        let (res, held) = self.around(|d| d.io_write(addr, data));
        self.log.push(Rec::Write { dev: self.dev, addr, data, res, held });
        res
    }
    fn io_reset(&mut self) {
        self.inner.io_reset();
        self.log.push(Rec::IoReset { dev: self.dev });
    }
    fn poll_interrupt(&mut self) -> Option<Interrupt> {
        let (int, held) = self.around(|d| d.poll_interrupt());
        let res = match &int {
            None => PollRes::None,
            Some(i) => match i.priority() {
                Some(p) => PollRes::Vect(0, p), // vector is not observable from outside; model checks it through entry
                None => PollRes::External,
            },
        };
        self.log.push(Rec::Poll { dev: self.dev, res, held });
        int
    }
}

pub type SharedTimer = Arc<Mutex<TimerDevice>>;

pub fn new_kb() -> (BufferedKeyboard, KbBuf) {
    let buf: KbBuf = Default::default();
    (BufferedKeyboard::new(buf.clone()), buf)
}
pub fn new_disp() -> (BufferedDisplay, DispBuf) {
    let buf: DispBuf = Default::default();
    (BufferedDisplay::new(buf.clone()), buf)
}
