//! Check definitions of the lockstep family.

use crate::c16::shrink_mscn;
use crate::genr::EndKind;
use crate::lockstep::{self, Oracle};
use crate::mgen::*;
use crate::mworld::*;
use crate::rng::{Fp, Rng};
use crate::runner::*;

const REAL: &[&str] = &["Simulator::step_in", "read_mem/write_mem", "DeviceHandler dispatch + poll", "BufferedKeyboard", "BufferedDisplay", "TimerDevice (Arc<Mutex> adapter)", "FrameStack", "AccessObserver", "parser + assembler (program and handler sources)", "built-in OS image"];
const STUB: &[&str] = &["RefLc3 reference model", "ClockDev host actor", "ScriptDev interrupt/MMIO sources", "Contended<D> wrapper", "getrandom entropy source"];
const ASSUME: &[&str] = &[
    "RefLc3 is written from the ISA and the crate's rustdoc; its documented don't-care points (DESIGN.md §4.4 D1-D13) adopt the implementation's value",
    "the model covers non-strict mode only (strict mode: C14 paired runs, C09 strict-twin arm)",
];

fn exec_ls(scn: &MScn, oracles: &[Oracle]) -> Outcome {
    let mut out = Outcome::default();
    let mut fp = Fp::new();
    let mut tr = Fp::new();
    fp.add(scn.flags.real_traps as u64 | (scn.flags.ignore_privilege as u64) << 1 | (scn.flags.debug_frames as u64) << 2);
    out.violation = lockstep::run(scn, oracles, &mut out, &mut fp, &mut tr);
    out.trace = tr.0;
    out
}

macro_rules! ls_check {
    ($name:ident, $id:literal, $quick:expr, $oracles:expr, $gen:expr, $rule:literal) => {
        pub struct $name;
        impl Check for $name {
            type Scn = MScn;
            fn id(&self) -> &'static str {
                $id
            }
            fn meta(&self) -> Meta {
                Meta { rule: $rule, components_real: REAL, components_stub: STUB, assumptions: ASSUME, level: "exploration", enumerated: "none (seeded sampling)" }
            }
            fn quick_runs(&self) -> u64 {
                $quick
            }
            fn entropy(&self, s: &MScn) -> u64 {
                s.entropy
            }
            fn generate(&self, r: &mut Rng, _t: Tier, _i: u64) -> MScn {
                let g: fn(&mut Rng) -> MScn = $gen;
                g(r)
            }
            fn execute(&self, s: &MScn) -> Outcome {
                exec_ls(s, $oracles)
            }
            fn shrink(&self, s: &MScn) -> Vec<MScn> {
                shrink_mscn(s)
            }
        }
    };
}

fn end_kind(r: &mut Rng) -> EndKind {
    *r.pick(&[EndKind::Halt, EndKind::Halt, EndKind::Halt, EndKind::Reserved, EndKind::NonCanonical, EndKind::Rti, EndKind::AcvLoad, EndKind::AcvStore, EndKind::JumpOut, EndKind::BadTrap])
}

ls_check!(
    C08,
    "C08",
    40_000,
    &[Oracle::Core],
    |r| if r.chance(1, 2) { let d = r.bool(); gen_soup(r, "C08", d) } else { let e = end_kind(r); gen_structured(r, "C08", false, e) },
    "Soup (random instruction words around a boundary-biased PC, boundary-aimed registers, user or supervisor mode) and structured (generated source programs with traps, calls, stack, I/O, deliberate faults) workloads x real/virtual traps x privilege checks x init strategy x devices (keyboard/display bare or contended, scripted interrupt sources with handlers, timer, recording MMIO devices, mapped internal registers) x schedule (key arrivals, edge/level raises, refusals, external interrupts), driven by step_in and compared with RefLc3 after every step (result kind, pc, psr, R0-R7 value+init, saved SP, instruction count, MCR, touched memory, periodic full memory, device call sequence, buffers, faulting address). Non-trivial: >=5 instructions executed and at least one of interrupt taken / trap entered / RTI / MMIO access / error. Distinct: hash of the sequence of step classes and error kinds plus flag bits."
);

ls_check!(
    C09,
    "C09",
    32_000,
    &[Oracle::Protection],
    |r| gen_adversarial(r),
    "Adversarial user-mode blocks aiming LD/ST/LDI/STI (pointer and target)/LDR/STR/JMP/JSRR/BR/fall-through fetch/TRAP pointers/RTI at every boundary address (x0000,x01FF,x0200,x2FFF,x3000,xFDFF,xFE00..xFE06,xFFFC,xFFFE,xFFFF, recording-device ports) and random ones, code placed at x3000.. or ending at xFDFF, real and virtual traps, interrupts alternating the mode, ignore_privilege flipped by the host, control arm with checks off. Monitored at every step whose pre-state is user mode with checks on: violation reported exactly when the model says so, no device reached (device log), keyboard queue/PSR/MCR unchanged, observer shows nothing outside user space, memory outside user space unchanged (touched-set + full sweeps). Non-trivial: >=1 refused and >=1 permitted access in the run."
);

ls_check!(
    C27,
    "C27",
    30_000,
    &[Oracle::Frames],
    |r| gen_frames(r),
    "Programs with nested JSR/JSRR/TRAP (including the OS's own nested traps), RET/JMP R7/RTI, unbalanced return and call sequences, interrupts at any depth; debug_frames on (2/3) and off; registered calling-convention and pass-by-register signatures. After every step frame_stack.len() equals the model's saturating depth and, with frames on, frames() equals the model's list entry-wise (caller, callee, kind, frame pointer, arguments; D8 exceptions). Core-state divergences are not reported here (they are C08's). Non-trivial: depth >= 2 and (a pop at depth 0 or an interrupt frame)."
);

ls_check!(
    C28,
    "C28",
    30_000,
    &[Oracle::Observer],
    |r| gen_observer(r),
    "C08 workloads (non-strict) chopped into step_in calls with untracked host read_mem/write_mem in between. After every step, for every non-I/O address: observer.read <=> model read set, observer.written <=> model write set, value changed => modified, modified => written; nothing else is recorded (take_mem_accesses sweep), untracked host accesses leave no mark. Non-trivial: >= 3 access kinds (fetch, data read, pointer read, data write, trap vector+push, interrupt vector+push, RTI pop)."
);

ls_check!(
    C10A,
    "C10a",
    14_000,
    &[Oracle::Interrupts],
    |r| gen_interrupts(r),
    "internal arm of C10 (gate/entry invariants in lockstep)"
);
