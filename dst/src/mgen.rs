//! Scenario generators for the lockstep family (C08, C09, C10a, C27, C28).

use crate::c16::sorted;
use crate::env::*;
use crate::genr::*;
use crate::mworld::*;
use crate::rng::Rng;

pub fn gen_init(r: &mut Rng) -> InitS {
    match r.below(5) {
        0 => InitS::Unseeded,
        1 => InitS::Known(*r.pick(&[0u16, 0xFFFF, 0x1234, 0x8000])),
        _ => InitS::Seeded(r.next_u64()),
    }
}

pub fn gen_io(r: &mut Rng, must: bool) -> IoSpec {
    match r.below(10) {
        0 | 1 if !must => IoSpec::Absent,
        0..=6 => IoSpec::Bare,
        _ => IoSpec::Wrapped { hold_calls: if r.chance(1, 3) { sorted((0..r.below(4)).map(|_| r.below(60) as u32).collect()) } else { vec![] }, hold_write: r.bool() },
    }
}

/// Adds `n` scripted interrupt sources with (mostly) well-behaved handlers.
/// Returns the handler sources through `scn.srcs` and vector pokes through `scn.pokes`.
pub fn add_irq_sources(r: &mut Rng, scn: &mut MScn, n: usize, window: u32, level_ok: bool) {
    let mut used_vects: Vec<u8> = vec![];
    for k in 0..n {
        let mut vect = 0x81 + r.below(0x7E) as u8;
        while used_vects.contains(&vect) {
            vect = vect.wrapping_add(1).max(0x81);
        }
        used_vects.push(vect);
        // (priorities above 7 are documented to be treated as 7)
        let prio = match r.below(16) {
            0 | 1 => 0,
            2 => 8 + r.below(248) as u8,
            _ => 1 + r.below(7) as u8,
        };
        let port = 0xFE20 + 2 * (scn.devs.len() as u16);
        let handler = r.chance(5, 6);
        let haddr = 0x1000 + 0x40 * (scn.devs.len() as u16);
        let mut raises = vec![];
        for _ in 0..1 + r.below(3) {
            raises.push((r.below(window.max(1) as u64) as u32, level_ok && handler && r.chance(1, 2)));
        }
        raises.sort();
        if handler {
            let work = r.below(3) as usize;
            scn.srcs.push(SrcSpec { text: gen_handler(r, haddr, Some(port), false, work), debug: false });
            scn.pokes.push((0x100 + vect as u16, vec![haddr]));
        }
        let _ = k;
        scn.devs.push(DevSpec::Script(ScriptSpec {
            ports: vec![port],
            vect,
            prio,
            raises,
            externals: if r.chance(1, 12) { vec![r.below(window.max(1) as u64) as u32] } else { vec![] },
            read_refuse: vec![],
            write_refuse: if r.chance(1, 10) { vec![r.below(3) as u32] } else { vec![] },
            read_base: r.u16(),
            mcr_clear: vec![],
            wrap: if r.chance(1, 4) { 1 + r.below(2) as u8 } else { 0 },
        }));
    }
}

pub fn add_timer(r: &mut Rng, scn: &mut MScn) {
    let vect = 0x70 + r.below(0x0F) as u8;
    let haddr = 0x1000 + 0x40 * (scn.devs.len() as u16);
    let work = r.below(2) as usize;
    scn.srcs.push(SrcSpec { text: gen_handler(r, haddr, None, false, work), debug: false });
    scn.pokes.push((0x100 + vect as u16, vec![haddr]));
    let lo = 3 + r.below(20) as u32;
    let hi = lo + r.below(15) as u32;
    scn.devs.push(DevSpec::Timer(TimerSpec { seed: Some(r.next_u64()), lo, hi, incl: true, vect, prio: 1 + r.below(7) as u8, enabled: true }));
}

/// Enables keyboard interrupts (host sets KBSR.IE) and installs a handler that consumes the key.
pub fn add_kb_interrupts(r: &mut Rng, scn: &mut MScn) {
    let haddr = 0x0F00;
    scn.srcs.push(SrcSpec { text: gen_handler(r, haddr, None, true, 0), debug: false });
    scn.pokes.push((0x180, vec![haddr]));
    scn.ops.insert(0, Op::HostWrite { addr: 0xFE00, data: 0x4000, privileged: true, track: false });
}

pub fn key_events(r: &mut Rng, scn: &mut MScn, n: usize, window: u32) {
    for _ in 0..n {
        let t = r.below(window.max(1) as u64) as u32;
        scn.events.push((t, HostEv::PushKeys((0..1 + r.below(3)).map(|_| 1 + r.below(255) as u8).collect())));
    }
    scn.events.sort_by_key(|e| e.0);
}

fn blank(profile: &str, r: &mut Rng, flags: FlagsS, max_ticks: u32) -> MScn {
    MScn { profile: profile.into(), entropy: r.next_u64(), flags, srcs: vec![], pokes: vec![], regs: vec![], pc: 0x3000, psr: None, kb: IoSpec::Absent, disp: IoSpec::Absent, devs: vec![], iregs: vec![], events: vec![], ops: vec![], max_ticks }
}

/// Soup workload: random instruction words around PC, boundary-aimed registers.
pub fn gen_soup(r: &mut Rng, profile: &str, debug_frames: bool) -> MScn {
    let deep = r.deep();
    let max_ticks = (40 + r.below(260) as u32) * deep;
    let flags = FlagsS { strict: false, real_traps: r.bool(), debug_frames, ignore_privilege: r.chance(1, 4), init: gen_init(r) };
    let mut s = blank(profile, r, flags, max_ticks);
    let supervisor = r.chance(1, 4);
    s.pc = if supervisor && r.bool() { 0x0300 + r.below(0x2C00) as u16 } else if r.chance(1, 6) { addr_biased(r) } else { 0x3000 + r.below(0xCD00) as u16 };
    if supervisor {
        s.psr = Some((r.below(8) as u16) << 8 | *r.pick(&[1u16, 2, 4]));
    } else if r.chance(1, 6) {
        s.psr = Some(0x8000 | (r.below(8) as u16) << 8 | *r.pick(&[1u16, 2, 4]));
    }
    let n = (4 + r.below(28) as usize) * deep as usize;
    s.pokes.push((s.pc, (0..n).map(|_| soup_word(r)).collect()));
    for _ in 0..r.below(3) {
        let a = user_addr(r);
        s.pokes.push((a, (0..1 + r.below(8)).map(|_| soup_word(r)).collect()));
    }
    for i in 0..8u8 {
        if r.chance(3, 4) {
            s.regs.push((i, if r.bool() { addr_biased(r) } else { user_addr(r) }));
        }
    }
    if supervisor || r.bool() {
        // a sane stack pointer makes trap/interrupt entry more interesting than a wild one
        s.regs.push((6, if supervisor { 0x2F00 + r.below(0x100) as u16 } else { 0xF000 + r.below(0x800) as u16 }));
    }
    s.kb = gen_io(r, false);
    s.disp = gen_io(r, false);
    if s.kb != IoSpec::Absent {
        let nk = r.below(3) as usize;
        key_events(r, &mut s, nk, max_ticks);
    }
    let nd = r.below(3) as usize;
    add_irq_sources(r, &mut s, nd, max_ticks, true);
    if r.chance(1, 5) {
        add_timer(r, &mut s);
    }
    // recording devices at random IO ports, aimed at by some registers
    if r.chance(1, 3) {
        let p = 0xFE40 + r.below(0x100) as u16;
        s.devs.push(DevSpec::Script(ScriptSpec { ports: vec![p, p + 1], vect: 0x90, prio: 0, raises: vec![], externals: vec![], read_refuse: sorted((0..r.below(3)).map(|_| r.below(4) as u32).collect()), write_refuse: sorted((0..r.below(3)).map(|_| r.below(4) as u32).collect()), read_base: r.u16(), mcr_clear: vec![], wrap: r.below(3) as u8 }));
        s.regs.push((r.below(6) as u8, p));
    }
    if r.chance(1, 4) {
        let a = 0xFF00 + r.below(0xF0) as u16 * 1;
        if a != SSP_PROBE {
            s.iregs.push((a, *r.pick(&[IReg::PC, IReg::PSR, IReg::MCR, IReg::SavedSP])));
            s.regs.push((r.below(6) as u8, a));
        }
    }
    // ---- targeted templates (narrow slices a uniform soup rarely reaches) ----
    match r.below(12) {
        0 | 1 => {
            // RTI popping an unusual PSR word (condition codes 000 / 011 / 111, stray bits set,
            // either privilege), followed by branches that consume those condition codes
            use crate::genr::enc;
            s.psr = Some((r.below(8) as u16) << 8 | 2);
            let stack = 0x2C00 + r.below(0x100) as u16;
            let ret = 0x4000 + r.below(0x8000) as u16;
            let cc = *r.pick(&[0u16, 0, 3, 5, 6, 7, 1, 2, 4]);
            let psr_word = *r.pick(&[0x8000u16, 0x0000, 0x8000, 0x80F8, 0x7800, 0xF8F8]) | (r.below(8) as u16) << 8 | cc;
            s.pokes.push((stack, vec![ret, psr_word]));
            s.regs.push((6, stack));
            s.pokes.push((s.pc, vec![enc::RTI]));
            let mut after = vec![enc::br(*r.pick(&[7u16, 7, 4, 2, 1, 3, 5, 6, 0]), 1), enc::add_i(0, 0, 1), enc::br(r.below(8) as u16, 1), enc::add_i(1, 1, 1)];
            after.extend((0..6).map(|_| soup_word(r)));
            s.pokes.push((ret, after));
        }
        2 => {
            // stores of every bit-15/bit-14 pattern to KBSR with a key pending, then reading it back
            use crate::genr::enc;
            s.flags.ignore_privilege = true;
            if s.kb == IoSpec::Absent {
                s.kb = IoSpec::Bare;
            }
            s.events.push((0, HostEv::PushKeys(vec![0x41, 0x42])));
            s.events.sort_by_key(|e| e.0);
            let vals = [0x8000u16, 0xC000, 0x4000, 0x0000, 0xFFFF, 0x3FFF, 0xBFFF, 0x7FFF];
            let p = s.pc;
            s.pokes.push((p, vec![enc::ld(1, 6), enc::sti(1, 7), enc::ldi(2, 6), enc::ld(1, 4), enc::sti(1, 4), enc::ldi(3, 3), enc::br(7, 3), *r.pick(&vals), *r.pick(&vals), 0xFE00]));
        }
        _ => {}
    }
    // driver: mostly one long Step, sometimes chopped with host actions in between
    let mut left = max_ticks;
    while left > 0 {
        let k = if r.chance(2, 3) { left } else { 1 + r.below(left as u64) as u32 };
        s.ops.push(Op::Step(k));
        left -= k;
        if left > 0 {
            match r.below(4) {
                0 => s.ops.push(Op::SetPc(if r.bool() { s.pc.wrapping_add(r.below(n as u64) as u16) } else { addr_biased(r) })),
                1 => s.ops.push(Op::SetReg(r.below(8) as u8, addr_biased(r))),
                2 => s.ops.push(Op::Host(HostEv::PushKeys(vec![r.u8()]))),
                _ => s.ops.push(Op::Poke(s.pc.wrapping_add(r.below(n as u64) as u16), soup_word(r))),
            }
        }
    }
    s
}

/// Structured workload: generated source programs using traps, calls, stack, I/O.
pub fn gen_structured(r: &mut Rng, profile: &str, debug_frames: bool, end: EndKind) -> MScn {
    let max_ticks = (300 + r.below(1500) as u32) * r.deep();
    let flags = FlagsS { strict: false, real_traps: r.bool(), debug_frames, ignore_privilege: r.chance(1, 8), init: gen_init(r) };
    let mut s = blank(profile, r, flags, max_ticks);
    let mut o = ProgOpts::basic(6 + r.below(30) as usize);
    o.kb = r.chance(1, 2);
    o.end = end;
    o.usp = *r.pick(&[0xF000u16, 0xFE00, 0x4000, 0xFDFF]);
    let p = gen_program(r, &o);
    s.srcs.push(SrcSpec { text: p.text, debug: r.chance(1, 4) });
    s.disp = gen_io(r, true);
    s.kb = if o.kb { gen_io(r, true) } else { gen_io(r, false) };
    if s.kb != IoSpec::Absent {
        // enough keys, arriving at scheduled (possibly late) boundaries
        let total = p.keys_needed + r.below(2) as usize;
        for _ in 0..total {
            let t = r.below((max_ticks / 3).max(1) as u64) as u32;
            s.events.push((t, HostEv::PushKeys(vec![1 + r.below(255) as u8])));
        }
        s.events.sort_by_key(|e| e.0);
    }
    let nd = r.below(3) as usize;
    add_irq_sources(r, &mut s, nd, max_ticks / 2, true);
    if r.chance(1, 4) {
        add_timer(r, &mut s);
    }
    if r.chance(1, 5) {
        s.events.push((r.below(max_ticks as u64 / 2) as u32, HostEv::DrainDisplay));
        s.events.sort_by_key(|e| e.0);
    }
    s.ops.push(Op::Step(max_ticks));
    s
}

/// C09: adversarial user-mode programs aiming every addressing mode at boundary addresses.
pub fn gen_adversarial(r: &mut Rng) -> MScn {
    use crate::genr::enc;
    let deep = r.deep();
    let max_ticks = (30 + r.below(80) as u32) * deep;
    let control = r.chance(1, 8); // control arm: ignore_privilege on, everything must be allowed
    let flags = FlagsS { strict: false, real_traps: r.bool(), debug_frames: false, ignore_privilege: control, init: gen_init(r) };
    let mut s = blank("C09", r, flags, max_ticks);
    // place code so that PC-relative modes reach a boundary
    let base: u16 = match r.below(5) {
        0 => 0x3000 + r.below(8) as u16,
        1 => 0xFDFF - r.below(12) as u16,
        2 => 0x3000 + r.below(0x100) as u16,
        _ => 0x3100 + r.below(0xCB00) as u16,
    };
    s.pc = base;
    let target = |r: &mut Rng| -> u16 {
        match r.below(8) {
            0..=4 => *r.pick(&[0x0000u16, 0x0001, 0x01FF, 0x0200, 0x2FFF, 0x3000, 0xFDFF, 0xFE00, 0xFE02, 0xFE04, 0xFE06, 0xFFFC, 0xFFFE, 0xFFFF, 0xFE40, 0xFE41]),
            5 => r.below(0x3000) as u16,
            6 => 0xFE00 + r.below(0x200) as u16,
            _ => user_addr(r),
        }
    };
    let n = (3 + r.below(10) as usize) * deep as usize;
    let mut words = vec![];
    // pointer cells in user memory for LDI/STI
    let ptr_cell = 0x5000 + r.below(0x100) as u16;
    for i in 0..n {
        let here = base.wrapping_add(i as u16).wrapping_add(1);
        let t = target(r);
        let w = match r.below(12) {
            0 => {
                // LDR via register aimed at target
                let b = 1 + r.below(5) as u16;
                let off = r.range(-32, 31) as i16;
                s.regs.push((b as u8, t.wrapping_sub(off as u16)));
                enc::ldr(0, b, off)
            }
            1 => {
                let b = 1 + r.below(5) as u16;
                let off = r.range(-32, 31) as i16;
                s.regs.push((b as u8, t.wrapping_sub(off as u16)));
                enc::str(r.below(8) as u16, b, off)
            }
            2 => {
                let d = t.wrapping_sub(here) as i16;
                if (-256..=255).contains(&d) {
                    enc::ld(r.below(8) as u16, d)
                } else {
                    enc::ld(r.below(8) as u16, r.range(-256, 255) as i16)
                }
            }
            3 => {
                let d = t.wrapping_sub(here) as i16;
                if (-256..=255).contains(&d) {
                    enc::st(r.below(8) as u16, d)
                } else {
                    enc::st(r.below(8) as u16, r.range(-256, 255) as i16)
                }
            }
            4 | 5 => {
                // LDI / STI through a user-space pointer cell holding the target,
                // or with the pointer cell itself outside user space
                let cell = if r.chance(1, 4) { t } else { ptr_cell.wrapping_add(i as u16) };
                if (0x3000..0xFE00).contains(&cell) {
                    s.pokes.push((cell, vec![t]));
                }
                let d = cell.wrapping_sub(here) as i16;
                let off = if (-256..=255).contains(&d) { d } else { 0 };
                if off == 0 && d != 0 {
                    // out of PC-relative reach: fall back to LDR form
                    s.regs.push((5, cell));
                    enc::ldr(0, 5, 0)
                } else if r.bool() {
                    enc::ldi(r.below(8) as u16, off)
                } else {
                    enc::sti(r.below(8) as u16, off)
                }
            }
            6 => {
                let b = 1 + r.below(5) as u16;
                s.regs.push((b as u8, t));
                enc::jmp(b)
            }
            7 => {
                let b = 1 + r.below(5) as u16;
                s.regs.push((b as u8, t));
                enc::jsrr(b)
            }
            8 => enc::RTI,
            9 => {
                // legal: trap with R0 pointing into supervisor memory (OS reads it)
                s.regs.push((0, *r.pick(&[0x0203u16, 0x0220, 0x3000])));
                enc::trap(*r.pick(&[0x22u16, 0x21, 0x24]))
            }
            10 => enc::br(7, r.range(-8, 8) as i16),
            _ => enc::add_i(r.below(8) as u16, r.below(8) as u16, r.range(-16, 15) as i16),
        };
        words.push(w);
    }
    // sometimes the block starts in supervisor mode and drops to user mode itself, by storing a user
    // PSR through the PSR's I/O address, before it attacks
    if r.chance(1, 6) {
        s.psr = Some(0x0002 | ((r.below(8) as u16) << 8));
        s.regs.retain(|(k, _)| *k != 6 && *k != 7);
        s.regs.push((6, 0x8002 | ((r.below(8) as u16) << 8)));
        s.regs.push((7, 0xFFFC));
        // STR R6, R7, #0
        words.insert(0, 0x7DC0);
    }
    s.pokes.insert(0, (base, words));
    // recording devices at aimed ports: any call they log during a refused access is a violation
    s.devs.push(DevSpec::Script(ScriptSpec { ports: vec![0xFE40, 0xFE41, 0xFFFF], vect: 0x90, prio: 0, raises: vec![], externals: vec![], read_refuse: vec![], write_refuse: vec![], read_base: r.u16(), mcr_clear: vec![], wrap: 0 }));
    s.kb = IoSpec::Bare;
    s.disp = IoSpec::Bare;
    s.events.push((0, HostEv::PushKeys(vec![0x41, 0x42, 0x43])));
    s.regs.push((6, 0xF000));
    // interrupts with well-behaved handlers so that the machine alternates between modes
    if r.chance(1, 2) {
        let nd = 1 + r.below(2) as usize;
        add_irq_sources(r, &mut s, nd, max_ticks, true);
    }
    // driver: step, and after errors resume elsewhere in the block; flip ignore_privilege sometimes
    let mut left = max_ticks;
    while left > 0 {
        let k = (1 + r.below(6) as u32).min(left);
        s.ops.push(Op::Step(k));
        left -= k;
        match r.below(6) {
            0 | 1 => s.ops.push(Op::SetPc(base.wrapping_add(r.below(n as u64) as u16))),
            2 if r.chance(1, 3) => s.ops.push(Op::SetIgnorePriv(r.bool())),
            _ => {}
        }
    }
    s
}

/// C27: programs with nested calls, unbalanced returns, registered signatures.
pub fn gen_frames(r: &mut Rng) -> MScn {
    let debug = r.chance(2, 3);
    let mut s = if r.chance(1, 3) { gen_soup(r, "C27", debug) } else { gen_structured(r, "C27", debug, EndKind::Halt) };
    // real-trap exceptions push frames whose kind the property does not speak about: avoid them
    s.flags.real_traps = s.flags.real_traps && s.pokes.is_empty();
    // unbalanced returns / extra calls injected as raw words in user space, reachable by SetPc
    if r.chance(1, 2) {
        use crate::genr::enc;
        let a = 0x6000 + r.below(0x100) as u16;
        let seq: Vec<u16> = match r.below(5) {
            // a subroutine that goes back through another register holding the return address: a jump, not a return
            4 => vec![enc::jsr(1), enc::trap(0x25), enc::add_i(1, 7, 0), enc::jmp(1)],
            0 => vec![enc::lea(7, 1), enc::RET, enc::lea(7, 1), enc::RET, enc::lea(7, 1), enc::RET, enc::trap(0x25)],
            1 => vec![enc::jsr(0), enc::jsr(0), enc::jsr(0), enc::lea(7, 1), enc::RET, enc::trap(0x25)],
            2 => vec![enc::lea(1, 2), enc::jsrr(1), enc::trap(0x25), enc::lea(7, -2), enc::jmp(7), enc::trap(0x25)],
            _ => vec![enc::jsr(1), enc::trap(0x25), enc::jsr(1), enc::trap(0x25), enc::lea(7, -4), enc::RET],
        };
        s.pokes.push((a, seq));
        let at = r.below(s.ops.len() as u64 + 1) as usize;
        s.ops.insert(at.min(s.ops.len()), Op::SetPc(a));
        if r.bool() {
            // stack pointer at the very top of memory: calling-convention argument blocks then
            // touch or cross xFFFF
            s.ops.insert(at.min(s.ops.len()), Op::SetReg(6, *r.pick(&[0xFFFCu16, 0xFFFD, 0xFFFE, 0xFFFF, 0x0000, 0xFFFB])));
        }
        if at == 0 {
            // make sure something steps afterwards
        }
        s.ops.push(Op::Step(40));
        s.max_ticks += 40;
    }
    if debug {
        // register signatures for a few plausible callee addresses (subroutine starts are
        // unknown to the generator, so it registers a spread of addresses near the program)
        let mut targets: Vec<u16> = vec![];
        // exact subroutine entry points of a structured program (looked up in its symbol table;
        // a failure here only means fewer registered signatures)
        if let Some(src) = s.srcs.first() {
            if let Ok(Ok(o)) = crate::runner::guarded(|| assemble_src(&SrcSpec { text: src.text.clone(), debug: true })) {
                if let Some(st) = o.symbol_table() {
                    for k in 0..3 {
                        if let Some(a) = st.lookup_label(&format!("SUB{k}")) {
                            targets.push(a);
                        }
                    }
                }
            }
        }
        // callee addresses of the raw call sequences at x60xx
        for (a, ws) in &s.pokes {
            if (0x6000..0x6200).contains(a) {
                for k in 0..ws.len() as u16 {
                    targets.push(a.wrapping_add(k));
                }
            }
        }
        for _ in 0..r.below(6) {
            let a = if !targets.is_empty() && r.chance(3, 4) { *r.pick(&targets) } else if r.bool() { 0x3000 + r.below(0x100) as u16 } else { 0x6000 + r.below(0x10) as u16 };
            let sig = if r.bool() { SigS::Cc(r.below(5) as u8) } else { SigS::Regs((0..r.below(4)).map(|_| r.below(6) as u8).collect()) };
            s.ops.insert(0, Op::SubDef(a, sig));
        }
        // a signature registered again, with a different shape, in the middle of the run (after the callee
        // may already have been called)
        if !targets.is_empty() && r.chance(1, 3) {
            let a = *r.pick(&targets);
            let sig = if r.bool() { SigS::Cc(r.below(5) as u8) } else { SigS::Regs((0..1 + r.below(3)).map(|_| r.below(6) as u8).collect()) };
            let at = r.below(s.ops.len() as u64 + 1) as usize;
            s.ops.insert(at, Op::SubDef(a, sig));
        }
        // the host calls a subroutine itself: between steps, after an error, on the halted machine
        if r.chance(1, 3) {
            let a = if !targets.is_empty() { *r.pick(&targets) } else { 0x3000 + r.below(0x40) as u16 };
            let at = if r.bool() { s.ops.len() } else { r.below(s.ops.len() as u64 + 1) as usize };
            s.ops.insert(at, Op::CallSub(a));
            s.ops.push(Op::Step(30));
            s.max_ticks += 30;
        }
        // interrupt vectors can carry signatures too (looked up for interrupt frames; arguments are D8)
        if r.chance(1, 4) {
            s.ops.insert(0, Op::SubDef(0x100 + r.below(0x100) as u16, SigS::Regs(vec![0])));
        }
    }
    s
}

/// C28 lockstep arm: C08 workloads plus untracked host accesses between steps.
pub fn gen_observer(r: &mut Rng) -> MScn {
    let mut s = if r.bool() { gen_soup(r, "C28", false) } else { gen_structured(r, "C28", false, EndKind::Halt) };
    // chop the long step and interleave host accesses with track_access=false
    let mut ops = vec![];
    for op in s.ops.drain(..) {
        match op {
            Op::Step(n) if n > 4 => {
                let mut left = n;
                while left > 0 {
                    let k = (1 + r.below(12) as u32).min(left);
                    ops.push(Op::Step(k));
                    left -= k;
                    if r.chance(1, 2) {
                        let addr = if r.bool() { s.pc.wrapping_add(r.below(32) as u16) } else { user_addr(r) };
                        if r.bool() {
                            ops.push(Op::HostWrite { addr, data: r.u16(), privileged: true, track: false });
                        } else {
                            // every combination of the two flags that are easy to confuse
                            let (effects, track) = *r.pick(&[(false, false), (true, false), (true, false), (false, true)]);
                            ops.push(Op::HostRead { addr, privileged: true, effects, track });
                        }
                    }
                }
            }
            o => ops.push(o),
        }
    }
    s.ops = ops;
    s
}

/// C10(a): competing sources, keyboard and timer interrupts, gate/entry invariants in lockstep.
pub fn gen_interrupts(r: &mut Rng) -> MScn {
    let mut s = if r.chance(1, 3) { gen_soup(r, "C10", false) } else { gen_structured(r, "C10", false, EndKind::Halt) };
    let w = s.max_ticks.min(400);
    let nd = 1 + r.below(4) as usize;
    add_irq_sources(r, &mut s, nd, w, true);
    if r.chance(1, 2) {
        add_timer(r, &mut s);
    }
    if s.kb != IoSpec::Absent && r.chance(1, 2) {
        add_kb_interrupts(r, &mut s);
        let nk = 1 + r.below(3) as usize;
        key_events(r, &mut s, nk, w);
    }
    // equal-priority ties now and then
    if r.chance(1, 4) {
        let ps: Vec<usize> = s.devs.iter().enumerate().filter(|(_, d)| matches!(d, DevSpec::Script(x) if !x.raises.is_empty())).map(|(i, _)| i).collect();
        if ps.len() >= 2 {
            let t = r.below(w as u64) as u32;
            let mut pr = 0;
            for (n, i) in ps.iter().take(2).enumerate() {
                if let DevSpec::Script(x) = &mut s.devs[*i] {
                    if n == 0 {
                        pr = x.prio.max(1);
                        x.prio = pr;
                    } else {
                        x.prio = pr;
                    }
                    x.raises.push((t, false));
                    x.raises.sort();
                }
            }
        }
    }
    s
}
