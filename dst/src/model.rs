//! RefLc3 — independent reference model of the LC-3 machine as the crate documents
//! it (Patt & Patel 3e ISA + the crate's rustdoc for library-defined behaviour).
//! Non-strict semantics only (strict mode is covered by paired runs, C14).
//!
//! The model never calls into the simulator to *compute* anything. It reads the
//! implementation only at the explicit don't-care points of DESIGN.md §4.4
//! (D1 CC after entry, D2 ties, D4 init flag of ALU results on not-fully-initialised
//! operands, D6 JMP with bit 11, D7 pc after a failed step), through `Adopt`.

use std::collections::{BTreeMap, BTreeSet, VecDeque};

use crate::env::{DevIx, HostEv, PollRes, Rec};
use crate::mworld::{IReg, SigS};

#[derive(Clone, Copy, Debug, PartialEq, Eq)]
pub struct RWord {
    pub v: u16,
    pub init: bool,
}
impl RWord {
    pub fn i(v: u16) -> Self {
        RWord { v, init: true }
    }
}

#[derive(Clone, Debug, Default)]
pub struct RefKb {
    pub present: bool,
    pub wrapped: bool,
    pub q: VecDeque<u8>,
    pub ie: bool,
    /// host holds the buffer lock (clock-driven hold)
    pub locked: bool,
}
#[derive(Clone, Debug, Default)]
pub struct RefDisp {
    pub present: bool,
    pub wrapped: bool,
    pub out: Vec<u8>,
    pub drained: Vec<u8>,
    pub locked: bool,
}
impl RefDisp {
    pub fn shown(&self) -> Vec<u8> {
        let mut v = self.drained.clone();
        v.extend_from_slice(&self.out);
        v
    }
}

#[derive(Clone, Debug)]
pub enum DevModel {
    Clock,
    Script { vect: u8 },
    Timer { vect: u8 },
}

#[derive(Clone, Debug, PartialEq, Eq)]
pub struct RFrame {
    pub caller: u16,
    pub callee: u16,
    /// 0 subroutine, 1 trap, 2 interrupt
    pub kind: u8,
    pub fp: Option<u16>,
    pub args: Vec<u16>,
    /// arguments are not compared (D8)
    pub args_dont_care: bool,
}

/// Values the model adopts from the implementation at the documented don't-care points.
pub struct Adopt {
    /// implementation's result kind for this step (None = Ok)
    pub res: Option<&'static str>,
    pub psr: u16,
    pub pc: u16,
    pub reg_init: [bool; 8],
}

#[derive(Clone, Debug, PartialEq, Eq)]
pub enum MRes {
    Ok,
    /// virtual HALT: step_in returns Ok, run-style calls stop with halt
    Halt,
    Err(&'static str),
}

#[derive(Clone, Debug, Default)]
pub struct StepInfo {
    /// what happened, for fingerprints and probes
    pub class: &'static str,
    pub took_interrupt: Option<u16>,
    pub entered_trap: Option<u16>,
    pub exception: Option<u16>,
    pub rti: bool,
    pub mmio: bool,
    pub adopted_init: bool,
    pub fault_addr: Option<u16>,
    pub stack_switch: bool,
    pub pending_masked: bool,
    pub pending_any: bool,
    pub nested: bool,
    /// D13: the entry's stack pushes land in the I/O page (supervisor stack pointer wrapped into
    /// xFE00-xFFFF): a push may rewrite PSR/MCR/a device register in the middle of the entry
    /// sequence; neither the ISA nor the crate's documentation says what follows
    pub unspecified: bool,
}

pub struct RefLc3 {
    pub mem: Vec<RWord>,
    pub regs: [RWord; 8],
    pub pc: u16,
    pub psr: u16,
    pub saved_sp: RWord,
    pub mcr: bool,
    pub instructions_run: u64,
    pub real_traps: bool,
    pub ignore_priv: bool,
    pub debug_frames: bool,
    pub depth: u64,
    pub frames: Vec<RFrame>,
    pub iregs: BTreeMap<u16, IReg>,
    pub port_owner: BTreeMap<u16, DevIx>,
    pub kb: RefKb,
    pub disp: RefDisp,
    /// custom devices in poll order
    pub devs: Vec<(DevIx, DevModel)>,
    pub sigs: BTreeMap<u16, SigS>,
    pub reads: BTreeSet<u16>,
    pub writes: BTreeMap<u16, bool>,
    pub prefetch: bool,
    pub tick: u32,
}

pub struct Cursor<'a> {
    pub recs: &'a [Rec],
    pub pos: usize,
}
impl<'a> Cursor<'a> {
    pub fn new(recs: &'a [Rec]) -> Self {
        Cursor { recs, pos: 0 }
    }
    fn next(&mut self) -> Option<&'a Rec> {
        let r = self.recs.get(self.pos);
        if r.is_some() {
            self.pos += 1;
        }
        r
    }
    pub fn done(&self) -> bool {
        self.pos >= self.recs.len()
    }
}

type R<T> = Result<T, String>;

fn sext(v: u16, bits: u32) -> u16 {
    let sh = 16 - bits;
    (((v << sh) as i16) >> sh) as u16
}
fn one_hot(cc: u16) -> bool {
    cc == 1 || cc == 2 || cc == 4
}

impl RefLc3 {
    pub fn privileged(&self) -> bool {
        self.psr & 0x8000 == 0
    }
    pub fn priority(&self) -> u8 {
        ((self.psr >> 8) & 7) as u8
    }
    pub fn cc(&self) -> u16 {
        self.psr & 7
    }
    fn eff_priv(&self) -> bool {
        self.privileged() || self.ignore_priv
    }
    pub fn prefetch_pc(&self) -> u16 {
        self.pc.wrapping_sub((!self.prefetch) as u16)
    }
    /// The public `call_subroutine`: R7 <- PC, a subroutine frame whose caller is the instruction the
    /// machine stands at (the one it last fetched), PC <- addr.
    pub fn host_call_subroutine(&mut self, addr: u16) {
        let caller = self.prefetch_pc();
        self.regs[7] = RWord::i(self.pc);
        self.push_frame(caller, addr, 0);
        self.pc = addr;
    }
    fn set_cc(&mut self, v: u16) {
        let cc = if v == 0 {
            2
        } else if v & 0x8000 != 0 {
            4
        } else {
            1
        };
        self.psr = (self.psr & !7) | cc;
    }

    pub fn host_apply(&mut self, ev: &HostEv) {
        match ev {
            HostEv::PushKeys(b) => {
                if self.kb.present {
                    self.kb.q.extend(b.iter().copied())
                }
            }
            HostEv::ClearKeys => self.kb.q.clear(),
            HostEv::DrainDisplay => {
                if self.disp.present {
                    let o = std::mem::take(&mut self.disp.out);
                    self.disp.drained.extend(o);
                }
            }
            HostEv::HoldKb { .. } => self.kb.locked = self.kb.present,
            HostEv::ReleaseKb => self.kb.locked = false,
            HostEv::HoldDisp { .. } => self.disp.locked = self.disp.present,
            HostEv::ReleaseDisp => self.disp.locked = false,
            HostEv::PoisonKb | HostEv::PoisonDisp => {}
            HostEv::ClearMcr => self.mcr = false,
        }
    }

    // ---- devices -------------------------------------------------------

    fn kb_read(&mut self, addr: u16, eff: bool, locked: bool) -> Option<u16> {
        match addr {
            0xFE00 => {
                let ready = !locked && !self.kb.q.is_empty();
                Some((ready as u16) << 15 | (self.kb.ie as u16) << 14)
            }
            0xFE02 => {
                if locked {
                    None
                } else if eff {
                    self.kb.q.pop_front().map(u16::from)
                } else {
                    self.kb.q.front().copied().map(u16::from)
                }
            }
            _ => None,
        }
    }
    fn kb_write(&mut self, addr: u16, data: u16) -> bool {
        if addr == 0xFE00 {
            self.kb.ie = (data >> 14) & 1 != 0;
            true
        } else {
            false
        }
    }
    fn disp_read(&mut self, addr: u16, locked: bool) -> Option<u16> {
        if addr == 0xFE04 {
            Some((!locked as u16) << 15)
        } else {
            None
        }
    }
    fn disp_write(&mut self, addr: u16, data: u16, locked: bool) -> bool {
        if addr == 0xFE06 && !locked {
            self.disp.out.push(data as u8);
            true
        } else {
            false
        }
    }

    fn dev_read(&mut self, addr: u16, eff: bool, cur: &mut Cursor) -> R<Option<u16>> {
        match addr {
            0xFE00 | 0xFE02 => {
                if !self.kb.present {
                    return Ok(None);
                }
                if self.kb.wrapped {
                    let Some(Rec::Read { dev: 1, addr: a, eff: e, res, held }) = cur.next() else {
                        return Err(format!("expected keyboard io_read(x{addr:04X}) in device log, found {:?}", cur.recs.get(cur.pos.wrapping_sub(1))));
                    };
                    if *a != addr || *e != eff {
                        return Err(format!("keyboard io_read called with (x{a:04X}, effectful={e}), model expects (x{addr:04X}, {eff})"));
                    }
                    let pred = self.kb_read(addr, eff, *held);
                    if pred != *res {
                        return Err(format!("keyboard io_read(x{addr:04X}) returned {res:?}, device model predicts {pred:?} (held={held})"));
                    }
                    Ok(pred)
                } else {
                    let l = self.kb.locked;
                    Ok(self.kb_read(addr, eff, l))
                }
            }
            0xFE04 | 0xFE06 => {
                if !self.disp.present {
                    return Ok(None);
                }
                if self.disp.wrapped {
                    let Some(Rec::Read { dev: 2, addr: a, eff: e, res, held }) = cur.next() else {
                        return Err(format!("expected display io_read(x{addr:04X}) in device log, found {:?}", cur.recs.get(cur.pos.wrapping_sub(1))));
                    };
                    if *a != addr || *e != eff {
                        return Err(format!("display io_read called with (x{a:04X}, {e}), model expects (x{addr:04X}, {eff})"));
                    }
                    let pred = self.disp_read(addr, *held);
                    if pred != *res {
                        return Err(format!("display io_read(x{addr:04X}) returned {res:?}, device model predicts {pred:?} (held={held})"));
                    }
                    Ok(pred)
                } else {
                    let l = self.disp.locked;
                    Ok(self.disp_read(addr, l))
                }
            }
            _ => match self.port_owner.get(&addr).copied() {
                None => Ok(None),
                Some(ix) => {
                    let Some(Rec::Read { dev, addr: a, eff: e, res, .. }) = cur.next() else {
                        return Err(format!("expected io_read(x{addr:04X}) on device {ix} in device log, found {:?}", cur.recs.get(cur.pos.wrapping_sub(1))));
                    };
                    if *dev != ix || *a != addr || *e != eff {
                        return Err(format!("device {dev} io_read(x{a:04X}, {e}) but model expects device {ix} io_read(x{addr:04X}, {eff})"));
                    }
                    Ok(*res)
                }
            },
        }
    }
    fn dev_write(&mut self, addr: u16, data: u16, cur: &mut Cursor) -> R<bool> {
        match addr {
            0xFE00 | 0xFE02 => {
                if !self.kb.present {
                    return Ok(false);
                }
                if self.kb.wrapped {
                    let Some(Rec::Write { dev: 1, addr: a, data: d, res, .. }) = cur.next() else {
                        return Err(format!("expected keyboard io_write(x{addr:04X}) in device log, found {:?}", cur.recs.get(cur.pos.wrapping_sub(1))));
                    };
                    if *a != addr || *d != data {
                        return Err(format!("keyboard io_write(x{a:04X}, x{d:04X}) but model expects (x{addr:04X}, x{data:04X})"));
                    }
                    let pred = self.kb_write(addr, data);
                    if pred != *res {
                        return Err(format!("keyboard io_write(x{addr:04X}) returned {res}, device model predicts {pred}"));
                    }
                    Ok(pred)
                } else {
                    Ok(self.kb_write(addr, data))
                }
            }
            0xFE04 | 0xFE06 => {
                if !self.disp.present {
                    return Ok(false);
                }
                if self.disp.wrapped {
                    let Some(Rec::Write { dev: 2, addr: a, data: d, res, held }) = cur.next() else {
                        return Err(format!("expected display io_write(x{addr:04X}) in device log, found {:?}", cur.recs.get(cur.pos.wrapping_sub(1))));
                    };
                    if *a != addr || *d != data {
                        return Err(format!("display io_write(x{a:04X}, x{d:04X}) but model expects (x{addr:04X}, x{data:04X})"));
                    }
                    let pred = self.disp_write(addr, data, *held);
                    if pred != *res {
                        return Err(format!("display io_write(x{addr:04X}) returned {res}, device model predicts {pred} (held={held})"));
                    }
                    Ok(pred)
                } else {
                    let l = self.disp.locked;
                    Ok(self.disp_write(addr, data, l))
                }
            }
            _ => match self.port_owner.get(&addr).copied() {
                None => Ok(false),
                Some(ix) => {
                    let Some(Rec::Write { dev, addr: a, data: d, res, .. }) = cur.next() else {
                        return Err(format!("expected io_write(x{addr:04X}) on device {ix} in device log, found {:?}", cur.recs.get(cur.pos.wrapping_sub(1))));
                    };
                    if *dev != ix || *a != addr || *d != data {
                        return Err(format!("device {dev} io_write(x{a:04X}, x{d:04X}) but model expects device {ix} io_write(x{addr:04X}, x{data:04X})"));
                    }
                    Ok(*res)
                }
            },
        }
    }

    // ---- memory --------------------------------------------------------

    /// Memory read as an instruction performs it. `Err(())` = access violation.
    fn read_mem(&mut self, addr: u16, privileged: bool, eff: bool, track: bool, cur: &mut Cursor, ad: &Adopt) -> R<Result<RWord, ()>> {
        if !privileged && !(0x3000..0xFE00).contains(&addr) {
            return Ok(Err(()));
        }
        if addr >= 0xFE00 {
            if let Some(ir) = self.iregs.get(&addr).copied() {
                let v = match ir {
                    IReg::PC => self.pc,
                    IReg::PSR => self.psr,
                    IReg::MCR => (self.mcr as u16) << 15,
                    IReg::SavedSP => self.saved_sp.v,
                };
                self.mem[addr as usize] = RWord::i(v);
            } else if let Some(d) = self.dev_read(addr, eff, cur)? {
                self.mem[addr as usize] = RWord::i(d);
            }
        }
        let _ = ad;
        if track {
            self.reads.insert(addr);
        }
        Ok(Ok(self.mem[addr as usize]))
    }
    fn write_mem(&mut self, addr: u16, data: RWord, privileged: bool, track: bool, cur: &mut Cursor, ad: &Adopt) -> R<Result<(), ()>> {
        if !privileged && !(0x3000..0xFE00).contains(&addr) {
            return Ok(Err(()));
        }
        let success = if addr >= 0xFE00 {
            if let Some(ir) = self.iregs.get(&addr).copied() {
                match ir {
                    IReg::PC => self.pc = data.v,
                    IReg::PSR => {
                        // library-defined: only privilege, priority and CC bits are kept;
                        // a CC field that is not one-hot is replaced by a valid one (adopted)
                        let cc = data.v & 7;
                        let cc = if one_hot(cc) { cc } else { ad.psr & 7 };
                        self.psr = (data.v & 0x8700) | cc;
                    }
                    IReg::MCR => self.mcr = data.v & 0x8000 != 0,
                    IReg::SavedSP => self.saved_sp = RWord::i(data.v),
                }
                true
            } else {
                self.dev_write(addr, data.v, cur)?
            }
        } else {
            true
        };
        if success {
            if track {
                let changed = self.mem[addr as usize].v != data.v;
                let e = self.writes.entry(addr).or_insert(false);
                *e |= changed;
            }
            self.mem[addr as usize] = data;
        }
        Ok(Ok(()))
    }
    /// Host access with explicit context (used by C28/C32 style checks).
    pub fn host_read(&mut self, addr: u16, privileged: bool, eff: bool, track: bool, cur: &mut Cursor, ad: &Adopt) -> R<Result<RWord, ()>> {
        self.read_mem(addr, privileged, eff, track, cur, ad)
    }
    pub fn host_write(&mut self, addr: u16, v: u16, privileged: bool, track: bool, cur: &mut Cursor, ad: &Adopt) -> R<Result<(), ()>> {
        self.write_mem(addr, RWord::i(v), privileged, track, cur, ad)
    }

    // ---- frames --------------------------------------------------------

    fn push_frame(&mut self, caller: u16, callee: u16, kind: u8) {
        self.depth += 1;
        if !self.debug_frames {
            return;
        }
        let builtin_trap = |v: u16| -> Option<SigS> {
            match v {
                0x20 | 0x23 | 0x25 => Some(SigS::Regs(vec![])),
                0x21 | 0x22 | 0x24 => Some(SigS::Regs(vec![0])),
                _ => None,
            }
        };
        let sig = match kind {
            0 => self.sigs.get(&callee).cloned(),
            1 => {
                if callee < 0x100 {
                    builtin_trap(callee)
                } else {
                    None
                }
            }
            _ => self.sigs.get(&callee).cloned(),
        };
        let (fp, args) = match &sig {
            Some(SigS::Cc(n)) => {
                let fp = self.regs[6].v.wrapping_sub(4);
                let args = (0..*n as u16).map(|i| self.mem[fp.wrapping_add(4).wrapping_add(i) as usize].v).collect();
                (Some(fp), args)
            }
            Some(SigS::Regs(rs)) => (None, rs.iter().map(|r| self.regs[*r as usize & 7].v).collect()),
            None => (None, vec![]),
        };
        let dc = kind == 2 || matches!(&sig, Some(SigS::Regs(rs)) if rs.contains(&7));
        self.frames.push(RFrame { caller, callee, kind, fp, args, args_dont_care: dc });
    }
    fn pop_frame(&mut self) {
        self.depth = self.depth.saturating_sub(1);
        if self.debug_frames {
            self.frames.pop();
        }
    }

    // ---- interrupt / trap / exception entry ------------------------------

    /// `prio` = Some for device interrupts, None for traps and exceptions.
    fn enter(&mut self, vect: u16, prio: Option<u8>, cur: &mut Cursor, ad: &Adopt, info: &mut StepInfo) -> R<MRes> {
        if !self.real_traps && matches!(vect, 0x25 | 0x100 | 0x101 | 0x102) {
            // virtual HALT / virtual exceptions: the machine stops *at* the instruction
            if !self.prefetch {
                self.pc = self.pc.wrapping_sub(1);
                self.prefetch = true;
            }
            return Ok(match vect {
                0x25 => MRes::Halt,
                0x100 => MRes::Err("PrivilegeViolation"),
                0x101 => MRes::Err("IllegalOpcode"),
                _ => MRes::Err("AccessViolation"),
            });
        }
        if !self.privileged() {
            std::mem::swap(&mut self.saved_sp, &mut self.regs[6]);
            info.stack_switch = true;
        } else if prio.is_some() {
            info.nested = true;
        }
        let old_psr = self.psr;
        let old_pc = self.pc;
        self.psr &= 0x7FFF;
        let sp = self.regs[6].v;
        self.regs[6].v = sp.wrapping_sub(2);
        if sp.wrapping_sub(1) >= 0xFE00 || sp.wrapping_sub(2) >= 0xFE00 {
            info.unspecified = true; // D13
            return Ok(MRes::Ok);
        }
        // supervisor stack pushes: PSR at sp-1, PC at sp-2
        let _ = self.write_mem(sp.wrapping_sub(1), RWord::i(old_psr), true, true, cur, ad)?;
        let _ = self.write_mem(sp.wrapping_sub(2), RWord::i(old_pc), true, true, cur, ad)?;
        // D1: condition codes after entry are unspecified; must be a valid one-hot value
        let cc = ad.psr & 7;
        if !one_hot(cc) {
            return Err(format!("after entry through vector x{vect:04X} the condition codes are x{cc:X}, not a valid N/Z/P value"));
        }
        self.psr = (self.psr & !7) | cc;
        if let Some(p) = prio {
            self.psr = (self.psr & !0x0700) | ((p as u16 & 7) << 8);
        }
        let target = match self.read_mem(vect, true, true, true, cur, ad)? {
            Ok(w) => w,
            Err(()) => unreachable!(),
        };
        let kind = if prio.is_some() { 2 } else { 1 };
        let caller = self.prefetch_pc();
        self.push_frame(caller, vect, kind);
        self.pc = target.v;
        Ok(MRes::Ok)
    }

    fn exception(&mut self, vect: u16, cur: &mut Cursor, ad: &Adopt, info: &mut StepInfo) -> R<MRes> {
        info.exception = Some(vect);
        info.fault_addr = Some(self.prefetch_pc());
        if self.real_traps {
            // D11: the PC value pushed for an exception is the faulting address or the one after it;
            // the model pushes its current pc, which is one of the two by construction.
            self.enter(vect, None, cur, ad, info)
        } else {
            Ok(match vect {
                0x100 => MRes::Err("PrivilegeViolation"),
                0x101 => MRes::Err("IllegalOpcode"),
                _ => MRes::Err("AccessViolation"),
            })
        }
    }

    // ---- one step --------------------------------------------------------

    /// Polls all devices in id order, consuming the environment log.
    fn poll(&mut self, cur: &mut Cursor) -> R<Vec<(PollRes, u16)>> {
        let mut pend = vec![];
        if self.kb.present {
            if self.kb.wrapped {
                let Some(Rec::Poll { dev: 1, res, held }) = cur.next() else {
                    return Err(format!("expected keyboard poll in device log, found {:?}", cur.recs.get(cur.pos.wrapping_sub(1))));
                };
                let ready = !*held && !self.kb.q.is_empty();
                let pred = ready && self.kb.ie;
                let got = matches!(res, PollRes::Vect(..));
                if pred != got {
                    return Err(format!("keyboard poll returned {res:?}; device model predicts interrupt={pred} (queue={}, ie={}, held={held})", self.kb.q.len(), self.kb.ie));
                }
                if got {
                    pend.push((PollRes::Vect(0x80, 4), 0x80));
                }
            } else if !self.kb.locked && !self.kb.q.is_empty() && self.kb.ie {
                pend.push((PollRes::Vect(0x80, 4), 0x80));
            }
        }
        if self.disp.present && self.disp.wrapped {
            let Some(Rec::Poll { dev: 2, res, .. }) = cur.next() else {
                return Err(format!("expected display poll in device log, found {:?}", cur.recs.get(cur.pos.wrapping_sub(1))));
            };
            if *res != PollRes::None {
                return Err("display raised an interrupt".into());
            }
        }
        let devs = self.devs.clone();
        for (ix, dm) in devs {
            match dm {
                DevModel::Clock => {
                    let Some(Rec::Tick { tick }) = cur.next() else {
                        return Err(format!("expected exactly one poll of every device per step (clock tick {}), found {:?}", self.tick, cur.recs.get(cur.pos.wrapping_sub(1))));
                    };
                    if *tick != self.tick {
                        return Err(format!("clock polled at tick {tick}, model is at tick {}", self.tick));
                    }
                    self.tick += 1;
                    while let Some(Rec::Host { ev, .. }) = cur.recs.get(cur.pos) {
                        cur.pos += 1;
                        self.host_apply(ev);
                    }
                }
                DevModel::Script { vect } | DevModel::Timer { vect } => {
                    let Some(Rec::Poll { dev, res, .. }) = cur.next() else {
                        return Err(format!("expected poll of device {ix} in device log, found {:?}", cur.recs.get(cur.pos.wrapping_sub(1))));
                    };
                    if *dev != ix {
                        return Err(format!("device {dev} polled where device {ix} was expected (poll order)"));
                    }
                    match res {
                        PollRes::None => {}
                        PollRes::External => pend.push((PollRes::External, 0)),
                        PollRes::Vect(_, p) => pend.push((PollRes::Vect(vect, *p), vect as u16)),
                    }
                }
            }
        }
        Ok(pend)
    }

    /// Executes one step (the unit `step_in` performs).
    pub fn step(&mut self, cur: &mut Cursor, ad: &Adopt) -> R<(MRes, StepInfo)> {
        let mut info = StepInfo::default();
        self.prefetch = true;
        let pend = self.poll(cur)?;
        // arbitration
        if !pend.is_empty() {
            info.pending_any = true;
            let key = |p: &PollRes| match p {
                PollRes::External => 8u8,
                PollRes::Vect(_, pr) => *pr & 7,
                PollRes::None => 0,
            };
            let best = pend.iter().map(|(p, _)| key(p)).max().unwrap();
            let tied: Vec<&(PollRes, u16)> = pend.iter().filter(|(p, _)| key(p) == best).collect();
            if best == 8 {
                info.class = "ext-irq";
                return Ok((MRes::Err("Interrupt"), info));
            }
            if best > self.priority() {
                // D2: any of the tied requests may win; identify the one taken by its target
                let chosen = if tied.len() == 1 {
                    tied[0].1
                } else {
                    let mut c = None;
                    for t in &tied {
                        if self.mem[0x100 + t.1 as usize].v == ad.pc {
                            c = Some(t.1);
                        }
                    }
                    match c {
                        Some(c) => c,
                        None => return Err(format!("pending interrupt of priority {best} > PSR priority {} but none of the tied vectors was entered (pc=x{:04X})", self.priority(), ad.pc)),
                    }
                };
                info.class = "irq";
                info.took_interrupt = Some(0x100 + chosen);
                let r = self.enter(0x100 + chosen, Some(best), cur, ad, &mut info)?;
                return Ok((r, info));
            }
            info.pending_masked = true;
        }
        // fetch
        let ep = self.eff_priv();
        let w = match self.read_mem(self.pc, ep, true, true, cur, ad)? {
            Ok(w) => w,
            Err(()) => {
                info.class = "fetch-acv";
                let r = self.exception(0x102, cur, ad, &mut info)?;
                return Ok((r, info));
            }
        };
        if self.pc >= 0xFE00 {
            info.mmio = true;
        }
        let ir = w.v;
        let op = ir >> 12;
        let dr = ((ir >> 9) & 7) as usize;
        let sr1 = ((ir >> 6) & 7) as usize;
        // decode validity
        let invalid = match op {
            1 | 5 => ir & 0x20 == 0 && ir & 0x18 != 0,
            4 => ir & 0x800 == 0 && (ir & 0x600 != 0 || ir & 0x3F != 0),
            8 => ir & 0xFFF != 0,
            9 => ir & 0x3F != 0x3F,
            12 => {
                let strict_bad = ir & 0xE00 != 0 || ir & 0x3F != 0;
                let d6 = ir & 0x800 != 0 && ir & 0x600 == 0 && ir & 0x3F == 0;
                if d6 {
                    // D6: JMP/RET with bit 11 set — either decoding is accepted; follow the implementation
                    ad.res == Some("InvalidInstrFormat") || (self.real_traps && self.mem[0x101].v == ad.pc)
                } else {
                    strict_bad
                }
            }
            15 => ir & 0xF00 != 0,
            _ => false,
        };
        if op == 13 || invalid {
            info.class = if op == 13 { "illegal-opcode" } else { "invalid-format" };
            if self.real_traps {
                let r = self.exception(0x101, cur, ad, &mut info)?;
                return Ok((r, info));
            }
            info.exception = Some(0x101);
            info.fault_addr = Some(self.pc);
            return Ok((MRes::Err(if op == 13 { "IllegalOpcode" } else { "InvalidInstrFormat" }), info));
        }
        self.pc = self.pc.wrapping_add(1);
        self.prefetch = false;

        macro_rules! acv {
            ($e:expr) => {
                match $e {
                    Ok(v) => v,
                    Err(()) => {
                        info.class = "data-acv";
                        let r = self.exception(0x102, cur, ad, &mut info)?;
                        return Ok((r, info));
                    }
                }
            };
        }
        let alu_init = |a: RWord, b: RWord, dr: usize, info: &mut StepInfo| -> R<bool> {
            if a.init && b.init {
                if !ad.reg_init[dr] {
                    return Err(format!("ALU result in R{dr} is reported uninitialised although both operands were fully initialised"));
                }
                Ok(true)
            } else {
                // D4: precision of tracking on partially/un-initialised operands is not pinned here
                info.adopted_init = true;
                Ok(ad.reg_init[dr])
            }
        };
        match op {
            0 => {
                info.class = "BR";
                if (ir >> 9) & 7 & self.cc() != 0 {
                    self.pc = self.pc.wrapping_add(sext(ir & 0x1FF, 9));
                }
            }
            1 | 5 => {
                info.class = if op == 1 { "ADD" } else { "AND" };
                let a = self.regs[sr1];
                let b = if ir & 0x20 != 0 { RWord::i(sext(ir & 0x1F, 5)) } else { self.regs[(ir & 7) as usize] };
                let v = if op == 1 { a.v.wrapping_add(b.v) } else { a.v & b.v };
                let init = alu_init(a, b, dr, &mut info)?;
                self.regs[dr] = RWord { v, init };
                self.set_cc(v);
            }
            9 => {
                info.class = "NOT";
                let a = self.regs[sr1];
                let init = alu_init(a, RWord::i(0), dr, &mut info)?;
                self.regs[dr] = RWord { v: !a.v, init };
                self.set_cc(!a.v);
            }
            2 => {
                info.class = "LD";
                let ea = self.pc.wrapping_add(sext(ir & 0x1FF, 9));
                info.mmio |= ea >= 0xFE00;
                let v = acv!(self.read_mem(ea, ep, true, true, cur, ad)?);
                self.regs[dr] = v;
                self.set_cc(v.v);
            }
            10 => {
                info.class = "LDI";
                let pa = self.pc.wrapping_add(sext(ir & 0x1FF, 9));
                let p = acv!(self.read_mem(pa, ep, true, true, cur, ad)?);
                info.mmio |= p.v >= 0xFE00 || pa >= 0xFE00;
                let v = acv!(self.read_mem(p.v, ep, true, true, cur, ad)?);
                self.regs[dr] = v;
                self.set_cc(v.v);
            }
            6 => {
                info.class = "LDR";
                let ea = self.regs[sr1].v.wrapping_add(sext(ir & 0x3F, 6));
                info.mmio |= ea >= 0xFE00;
                let v = acv!(self.read_mem(ea, ep, true, true, cur, ad)?);
                self.regs[dr] = v;
                self.set_cc(v.v);
            }
            14 => {
                info.class = "LEA";
                self.regs[dr] = RWord::i(self.pc.wrapping_add(sext(ir & 0x1FF, 9)));
            }
            3 => {
                info.class = "ST";
                let ea = self.pc.wrapping_add(sext(ir & 0x1FF, 9));
                info.mmio |= ea >= 0xFE00;
                let d = self.regs[dr];
                acv!(self.write_mem(ea, d, ep, true, cur, ad)?);
            }
            11 => {
                info.class = "STI";
                let pa = self.pc.wrapping_add(sext(ir & 0x1FF, 9));
                let p = acv!(self.read_mem(pa, ep, true, true, cur, ad)?);
                info.mmio |= p.v >= 0xFE00 || pa >= 0xFE00;
                let d = self.regs[dr];
                acv!(self.write_mem(p.v, d, ep, true, cur, ad)?);
            }
            7 => {
                info.class = "STR";
                let ea = self.regs[sr1].v.wrapping_add(sext(ir & 0x3F, 6));
                info.mmio |= ea >= 0xFE00;
                let d = self.regs[dr];
                acv!(self.write_mem(ea, d, ep, true, cur, ad)?);
            }
            4 => {
                info.class = if ir & 0x800 != 0 { "JSR" } else { "JSRR" };
                let target = if ir & 0x800 != 0 { self.pc.wrapping_add(sext(ir & 0x7FF, 11)) } else { self.regs[sr1].v };
                self.regs[7] = RWord::i(self.pc);
                let caller = self.prefetch_pc();
                self.push_frame(caller, target, 0);
                self.pc = target;
            }
            12 => {
                info.class = if sr1 == 7 { "RET" } else { "JMP" };
                self.pc = self.regs[sr1].v;
                if sr1 == 7 {
                    self.pop_frame();
                }
            }
            8 => {
                info.class = "RTI";
                if !ep {
                    let r = self.exception(0x100, cur, ad, &mut info)?;
                    return Ok((r, info));
                }
                info.rti = true;
                let sp = self.regs[6].v;
                let npc = acv!(self.read_mem(sp, ep, true, true, cur, ad)?);
                let npsr = acv!(self.read_mem(sp.wrapping_add(1), ep, true, true, cur, ad)?);
                self.regs[6].v = sp.wrapping_add(2);
                self.pc = npc.v;
                self.psr = npsr.v;
                if !self.privileged() {
                    std::mem::swap(&mut self.saved_sp, &mut self.regs[6]);
                    info.stack_switch = true;
                }
                self.pop_frame();
            }
            15 => {
                info.class = "TRAP";
                let v = ir & 0xFF;
                info.entered_trap = Some(v);
                let r = self.enter(v, None, cur, ad, &mut info)?;
                if r != MRes::Ok {
                    // virtual HALT: not counted as an executed instruction
                    return Ok((r, info));
                }
            }
            _ => unreachable!(),
        }
        self.instructions_run = self.instructions_run.wrapping_add(1);
        Ok((MRes::Ok, info))
    }
}
