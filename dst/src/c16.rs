//! C16 — no machine state makes the simulator panic (world M, chaos arm).
//!
//! Random machine states, flags, devices, internal-register mappings and a random
//! driver history over all six entry points, with environment faults (bit flips,
//! device refusals, lock holds and poisoning, external interrupts, reset/reload
//! mid-flight). Oracle: every library call returns; after every error the
//! faulting-address query returns too. No reference model is involved.

use crate::env::*;
use crate::genr::*;
use crate::mworld::*;
use crate::rng::{Fp, Rng};
use crate::runner::*;

pub struct C16;

fn gen_script(r: &mut Rng, used_ports: &mut Vec<u16>, max_ticks: u32) -> ScriptSpec {
    let mut ports = vec![];
    for _ in 0..r.below(3) {
        let p = 0xFE08 + r.below(0x1E0) as u16;
        if !used_ports.contains(&p) && p != 0xFFFC && p != 0xFFFE {
            used_ports.push(p);
            ports.push(p);
        }
    }
    let mut raises = vec![];
    for _ in 0..r.below(5) {
        raises.push((r.below(max_ticks as u64) as u32, r.chance(1, 3)));
    }
    let mut externals = vec![];
    if r.chance(1, 4) {
        externals.push(r.below(max_ticks as u64) as u32);
    }
    ScriptSpec {
        ports,
        vect: if r.chance(1, 3) { r.below(4) as u8 } else { r.u8() },
        prio: if r.chance(1, 5) { r.u8() } else { r.below(8) as u8 },
        raises,
        externals,
        read_refuse: (0..r.below(3)).map(|_| r.below(8) as u32).collect(),
        write_refuse: (0..r.below(3)).map(|_| r.below(8) as u32).collect(),
        read_base: r.u16(),
        mcr_clear: if r.chance(1, 5) { vec![r.below(max_ticks as u64) as u32] } else { vec![] },
        wrap: r.below(3) as u8,
    }
}

impl Check for C16 {
    type Scn = MScn;
    fn id(&self) -> &'static str {
        "C16"
    }
    fn meta(&self) -> Meta {
        Meta {
            rule: "Scenario = seeded machine image (Seeded/Unseeded-under-controlled-entropy/Known) with instruction-dense regions around a boundary-biased PC, random registers/PSR/flags, keyboard/display (bare or contended), scripted interrupt sources (any vector, priority incl. >7), timer, internal registers mapped at random IO ports, and a driver history of 3-14 calls over step_in/run/run_with_limit/run_while/step_over/step_out interleaved with bit flips, resets, reloads, flag flips, lock holds/poison, key pushes. Non-trivial: at least one call returned Err and the faulting-address query was made afterwards. Distinct: hash of (error kinds seen, PC page at each error, flag bits, entry points used).",
            components_real: &["Simulator (all entry points)", "DeviceHandler", "BufferedKeyboard", "BufferedDisplay", "TimerDevice", "Arc<Mutex<D>> adapter", "FrameStack", "AccessObserver", "parser+assembler (overlay programs)", "built-in OS image"],
            components_stub: &["ClockDev host actor", "ScriptDev interrupt/MMIO source", "Contended<D> wrapper", "getrandom entropy source"],
            assumptions: &["harness built with overflow-checks and debug-assertions on (the configuration `cargo build`/`cargo test` users get)", "std RwLock try_write on the owning thread returns WouldBlock (probed at start-up)"],
            level: "exploration",
            enumerated: "PC start values: every element of the boundary list x {-2..+2} is drawn with probability > 1/2 per run; not enumerated exhaustively",
        }
    }
    fn quick_runs(&self) -> u64 {
        30_000
    }
    fn entropy(&self, scn: &MScn) -> u64 {
        scn.entropy
    }

    fn generate(&self, r: &mut Rng, _tier: Tier, _i: u64) -> MScn {
        let deep = r.deep();
        let max_ticks = (60 + r.below(240) as u32) * deep;
        let init = match r.below(4) {
            0 => InitS::Unseeded,
            1 => InitS::Known(*r.pick(&[0u16, 0xFFFF, 0x8000, 0xD000, 0x1234])),
            _ => InitS::Seeded(r.next_u64()),
        };
        let flags = FlagsS { strict: r.chance(1, 3), real_traps: r.bool(), debug_frames: r.bool(), ignore_privilege: r.chance(1, 3), init };
        let pc = addr_biased(r);
        // instruction-dense overlays at PC and elsewhere
        let mut pokes = vec![];
        for k in 0..r.below(4) {
            let base = if k == 0 { pc.wrapping_sub(r.below(4) as u16) } else { addr_biased(r) };
            let n = 1 + r.below(24) as usize;
            pokes.push((base, (0..n).map(|_| soup_word(r)).collect::<Vec<_>>()));
        }
        // vectors occasionally redirected into user space / odd places
        for _ in 0..r.below(3) {
            pokes.push((r.below(0x200) as u16, vec![addr_biased(r)]));
        }
        let mut regs = vec![];
        for i in 0..8u8 {
            if r.chance(2, 3) {
                regs.push((i, addr_biased(r)));
            }
        }
        let psr = if r.chance(1, 2) { Some(r.u16()) } else { None };
        let io = |r: &mut Rng| match r.below(4) {
            0 => IoSpec::Absent,
            1 | 2 => IoSpec::Bare,
            _ => IoSpec::Wrapped { hold_calls: sorted((0..r.below(6)).map(|_| r.below(40) as u32).collect()), hold_write: r.bool() },
        };
        let kb = io(r);
        let disp = io(r);
        let mut used_ports = vec![0xFE00, 0xFE02, 0xFE04, 0xFE06];
        let mut devs = vec![];
        for _ in 0..r.below(4) {
            if r.chance(1, 3) {
                let lo = r.below(6) as u32;
                let hi = lo + r.below(8) as u32;
                devs.push(DevSpec::Timer(TimerSpec { seed: if r.bool() { Some(r.next_u64()) } else { None }, lo, hi, incl: true, vect: r.u8(), prio: r.below(10) as u8, enabled: r.chance(3, 4) }));
            } else {
                devs.push(DevSpec::Script(gen_script(r, &mut used_ports, max_ticks)));
            }
        }
        let mut iregs = vec![];
        let mut ir_used = vec![0xFFFCu16, 0xFFFE];
        for _ in 0..r.below(4) {
            let a = if r.bool() { 0xFE00 + r.below(0x200) as u16 } else { *r.pick(&[0xFE00u16, 0xFE02, 0xFE04, 0xFE06, 0xFFFF, 0xFE08, 0xFFFD]) };
            if !ir_used.contains(&a) {
                ir_used.push(a);
                iregs.push((a, *r.pick(&[IReg::PC, IReg::PSR, IReg::MCR, IReg::SavedSP])));
            }
        }
        // aim some registers at the mapped internal registers so stores hit them
        for (a, _) in &iregs {
            if r.bool() {
                regs.push((r.below(8) as u8, *a));
            }
        }
        let mut events = vec![];
        for _ in 0..r.below(8) {
            let t = r.below(max_ticks as u64) as u32;
            let ev = match r.below(10) {
                0 | 1 | 2 => HostEv::PushKeys((0..1 + r.below(4)).map(|_| r.u8()).collect()),
                3 => HostEv::DrainDisplay,
                4 => HostEv::HoldKb { write: r.bool() },
                5 => HostEv::ReleaseKb,
                6 => HostEv::HoldDisp { write: r.bool() },
                7 => HostEv::ReleaseDisp,
                8 => if r.bool() { HostEv::PoisonKb } else { HostEv::PoisonDisp },
                _ => HostEv::ClearMcr,
            };
            events.push((t, ev));
        }
        events.sort_by_key(|e| e.0);
        let srcs = if r.chance(1, 4) {
            vec![SrcSpec { text: ".orig x3000\nLEA R0, S\nPUTS\nGETC\nOUT\nIN\nLEA R0, S\nPUTSP\nHALT\nS .stringz \"hi\"\n.blkw 3\n.end\n".into(), debug: r.bool() }]
        } else if r.chance(1, 8) {
            // an object file without a single word: loading it leaves the simulator with no loaded block at all
            vec![SrcSpec { text: ".orig x3000\n.end\n".into(), debug: r.bool() }]
        } else {
            vec![]
        };
        let nops = (3 + r.below(12)) * deep as u64;
        let mut ops = vec![];
        for _ in 0..nops {
            let op = match r.below(27) {
                0..=5 => Op::Step(1 + r.below(12) as u32),
                6 | 7 => Op::RunLimit(r.below(40)),
                8 => Op::Run,
                9 => Op::RunWhile(Pred::Count(r.below(30))),
                10 => Op::RunWhile(Pred::PcNe(addr_biased(r))),
                11 => Op::RunWhile(Pred::McrAfter(r.below(20) as u32)),
                12 => Op::StepOver,
                13 => Op::StepOut,
                14 => Op::FlipBits(pc.wrapping_add(r.below(16) as u16), 1 << r.below(16)),
                15 => Op::Reset,
                16 => Op::Load(0),
                17 => Op::SetPc(addr_biased(r)),
                18 => Op::SetReg(r.below(8) as u8, addr_biased(r)),
                19 => match r.below(4) {
                    0 => Op::SetStrict(r.bool()),
                    1 => Op::SetRealTraps(r.bool()),
                    2 => Op::SetIgnorePriv(r.bool()),
                    _ => Op::SetDebugFrames(r.bool()),
                },
                20 => Op::BpAdd(match r.below(3) {
                    0 => BpS::Pc(addr_biased(r)),
                    1 => BpS::Reg(r.below(8) as u8, Cmp::Ge(r.u16())),
                    _ => BpS::Mem(addr_biased(r), Cmp::Ne(r.u16())),
                }),
                21 => Op::SubDef(addr_biased(r), if r.bool() { SigS::Cc(r.below(5) as u8) } else { SigS::Regs((0..r.below(4)).map(|_| r.below(8) as u8).collect()) }),
                22 => Op::HostWrite { addr: addr_biased(r), data: r.u16(), privileged: r.bool(), track: r.bool() },
                23 => Op::HostRead { addr: addr_biased(r), privileged: r.bool(), effects: r.bool(), track: r.bool() },
                24 => Op::TimerEnable(r.below(4) as usize, r.bool()),
                25 => {
                    let a = addr_biased(r);
                    if r.bool() {
                        // a registered calling-convention signature for that very callee, stack near the top
                        ops.push(Op::SubDef(a, SigS::Cc(1 + r.below(4) as u8)));
                        if r.bool() {
                            ops.push(Op::SetReg(6, 0xFFFBu16.wrapping_add(r.below(6) as u16)));
                        }
                    }
                    Op::CallSub(a)
                }
                26 if r.chance(1, 2) => {
                    if r.bool() {
                        // a NullDevice as the newest slot, reachable through its own port
                        let p = *r.pick(&[0xFE60u16, 0xFE61, 0xFE7F, 0xFFF0]);
                        ops.push(Op::AddNullDev(vec![p]));
                        ops.push(Op::SetReg(r.below(6) as u8, p));
                    }
                    Op::RemoveDev(r.below(4) as usize)
                }
                _ => Op::QueryAll,
            };
            ops.push(op);
        }
        MScn { profile: "C16".into(), entropy: r.next_u64(), flags, srcs, pokes, regs, pc, psr, kb, disp, devs, iregs, events, ops, max_ticks }
    }

    fn execute(&self, scn: &MScn) -> Outcome {
        let mut out = Outcome::default();
        let mut fp = Fp::new();
        let mut tr = Fp::new();
        let mut w = match guarded(|| build(scn)) {
            Ok(Ok(w)) => w,
            Ok(Err(e)) => {
                // harness-level: scenario not buildable (never a property violation)
                out.bump("harness.unbuildable");
                tr.add_str(&e);
                out.trace = tr.0;
                return out;
            }
            Err(p) => {
                out.violation = Some(Violation { class: "panic-in-setup".into(), step: 0, detail: p });
                return out;
            }
        };
        let fl = scn.flags;
        fp.add(fl.strict as u64 | (fl.real_traps as u64) << 1 | (fl.debug_frames as u64) << 2 | (fl.ignore_privilege as u64) << 3);
        let mut errs = 0u64;
        for (i, op) in scn.ops.iter().enumerate() {
            let res = guarded(|| exec_op(&mut w, op));
            match res {
                Err(p) => {
                    out.violation = Some(Violation { class: format!("panic-in-{}", op_name(op)), step: i as u64, detail: p });
                    break;
                }
                Ok(OpRes::Drive(r)) => {
                    fp.add_str(op_name(op));
                    tr.add_str(op_name(op));
                    if let Err(k) = r {
                        errs += 1;
                        out.bump(match k {
                            "Interrupt" => "fired.irq-external",
                            _ => "probe.err-returned",
                        });
                        match guarded(|| w.sim.prefetch_pc()) {
                            Ok(a) => {
                                fp.add_str(k);
                                fp.add((a >> 9) as u64);
                                tr.add(a as u64);
                            }
                            Err(p) => {
                                out.violation = Some(Violation { class: "panic-in-prefetch_pc".into(), step: i as u64, detail: format!("after {} -> Err({k}) with pc=x{:04X}: {p}", op_name(op), w.sim.pc) });
                                break;
                            }
                        }
                    }
                    // the same queries a debugger front-end makes after every call
                    if let Err(p) = guarded(|| {
                        let _ = w.sim.frame_stack.frames().map(|f| f.len());
                        let _ = w.sim.default_mem_ctx();
                        let _ = w.sim.hit_halt() | w.sim.hit_breakpoint();
                    }) {
                        out.violation = Some(Violation { class: "panic-in-query".into(), step: i as u64, detail: p });
                        break;
                    }
                    tr.add(w.sim.pc as u64);
                    tr.add(w.sim.psr().get() as u64);
                    tr.add(w.sim.instructions_run);
                    for k in 0..8 {
                        tr.add(w.sim.reg_file[reg(k)].get() as u64);
                    }
                }
                Ok(OpRes::Cfg) => {
                    tr.add_str(op_name(op));
                }
            }
        }
        w.host.release_all();
        // environment log → fault counters
        let recs = w.log.take();
        let mut ticks = 0u64;
        for rc in &recs {
            match rc {
                Rec::Tick { .. } => ticks += 1,
                Rec::Poll { res: PollRes::Vect(..), .. } => out.bump("fired.irq-raise"),
                Rec::Read { res: None, held: true, .. } | Rec::Write { res: false, held: true, .. } => out.bump("fired.lock-hold"),
                Rec::Read { res: None, .. } => out.bump("fired.dev-refuse-read"),
                Rec::Write { res: false, .. } => out.bump("fired.dev-refuse-write"),
                Rec::Host { ev, .. } => match ev {
                    HostEv::PoisonKb | HostEv::PoisonDisp => out.bump("fired.lock-poison"),
                    HostEv::ClearMcr => out.bump("fired.mcr-clear"),
                    HostEv::PushKeys(_) => out.bump("fired.key-push"),
                    _ => {}
                },
                _ => {}
            }
            tr.add(rec_hash(rc));
        }
        for op in &scn.ops {
            match op {
                Op::FlipBits(..) => out.bump("fired.bitflip-mem"),
                Op::Reset => out.bump("fired.reset-midflight"),
                Op::Load(_) => out.bump("fired.reload"),
                _ => {}
            }
        }
        out.sim_time = ticks;
        out.trace = tr.0;
        if errs > 0 {
            out.fingerprint = Some(fp.0);
        }
        out
    }

    fn shrink(&self, scn: &MScn) -> Vec<MScn> {
        shrink_mscn(scn)
    }
}

pub fn sorted(mut v: Vec<u32>) -> Vec<u32> {
    v.sort();
    v.dedup();
    v
}

pub fn op_name(op: &Op) -> &'static str {
    match op {
        Op::Step(_) => "step_in",
        Op::Run => "run",
        Op::RunLimit(_) => "run_with_limit",
        Op::RunWhile(_) => "run_while",
        Op::StepOver => "step_over",
        Op::StepOut => "step_out",
        Op::Reset => "reset",
        Op::Load(_) => "load_obj_file",
        Op::HostRead { .. } => "read_mem",
        Op::HostWrite { .. } => "write_mem",
        Op::QueryAll => "query",
        Op::CallSub(_) => "call_subroutine",
        Op::SubDef(..) => "set_subroutine_def",
        Op::Host(_) => "host",
        Op::RemoveDev(_) => "remove_device",
        Op::AddNullDev(_) => "add_device(NullDevice)",
        _ => "cfg",
    }
}

pub fn rec_hash(r: &Rec) -> u64 {
    let mut f = Fp::new();
    match r {
        Rec::Poll { dev, res, held } => {
            f.add(1);
            f.add(*dev as u64);
            f.add(match res {
                PollRes::None => 0,
                PollRes::Vect(v, p) => 1 + ((*v as u64) << 8 | *p as u64),
                PollRes::External => 0xFFFFF,
            });
            f.add(*held as u64)
        }
        Rec::Read { dev, addr, eff, res, held } => {
            f.add(2);
            f.add(*dev as u64);
            f.add(*addr as u64);
            f.add(*eff as u64);
            f.add(res.map(|v| v as u64 + 1).unwrap_or(0));
            f.add(*held as u64)
        }
        Rec::Write { dev, addr, data, res, held } => {
            f.add(3);
            f.add(*dev as u64);
            f.add(*addr as u64);
            f.add(*data as u64);
            f.add(*res as u64);
            f.add(*held as u64)
        }
        Rec::IoReset { dev } => {
            f.add(4);
            f.add(*dev as u64)
        }
        Rec::Host { tick, ev } => {
            f.add(5);
            f.add(*tick as u64);
            f.add_str(&format!("{ev:?}"))
        }
        Rec::Tick { tick } => {
            f.add(6);
            f.add(*tick as u64)
        }
    }
    f.0
}

/// Generic delta-debugging candidates for world-M scenarios.
pub fn shrink_mscn(s: &MScn) -> Vec<MScn> {
    let mut c = vec![];
    // drop halves/singles of ops (from the tail first)
    let n = s.ops.len();
    if n > 1 {
        let mut t = s.clone();
        t.ops.truncate(n / 2);
        c.push(t);
        let mut t = s.clone();
        t.ops.truncate(n - 1);
        c.push(t);
        for i in 0..n {
            let mut t = s.clone();
            t.ops.remove(i);
            c.push(t);
        }
    }
    // shrink step/limit counts
    for i in 0..n {
        match &s.ops[i] {
            Op::Step(k) if *k > 1 => {
                let mut t = s.clone();
                t.ops[i] = Op::Step(k / 2);
                c.push(t);
                let mut t = s.clone();
                t.ops[i] = Op::Step(k - 1);
                c.push(t);
            }
            Op::RunLimit(k) if *k > 1 => {
                let mut t = s.clone();
                t.ops[i] = Op::RunLimit(k / 2);
                c.push(t);
                let mut t = s.clone();
                t.ops[i] = Op::RunLimit(k - 1);
                c.push(t);
            }
            _ => {}
        }
    }
    if !s.events.is_empty() {
        let mut t = s.clone();
        t.events.clear();
        c.push(t);
        for i in 0..s.events.len() {
            let mut t = s.clone();
            t.events.remove(i);
            c.push(t);
        }
    }
    if !s.devs.is_empty() {
        // devices can only be dropped from the end (ids are positional)
        let mut t = s.clone();
        t.devs.pop();
        c.push(t);
        for i in 0..s.devs.len() {
            if let DevSpec::Script(sp) = &s.devs[i] {
                if !sp.raises.is_empty() {
                    for j in 0..sp.raises.len() {
                        let mut t = s.clone();
                        if let DevSpec::Script(x) = &mut t.devs[i] {
                            x.raises.remove(j);
                        }
                        c.push(t);
                    }
                }
                if !sp.externals.is_empty() || !sp.mcr_clear.is_empty() || !sp.read_refuse.is_empty() || !sp.write_refuse.is_empty() {
                    let mut t = s.clone();
                    if let DevSpec::Script(x) = &mut t.devs[i] {
                        x.externals.clear();
                        x.mcr_clear.clear();
                        x.read_refuse.clear();
                        x.write_refuse.clear();
                    }
                    c.push(t);
                }
            }
        }
    }
    if !s.iregs.is_empty() {
        let mut t = s.clone();
        t.iregs.clear();
        c.push(t);
        for i in 0..s.iregs.len() {
            let mut t = s.clone();
            t.iregs.remove(i);
            c.push(t);
        }
    }
    if !s.srcs.is_empty() && !s.ops.iter().any(|o| matches!(o, Op::Load(_))) {
        let mut t = s.clone();
        t.srcs.clear();
        c.push(t);
    }
    for i in 0..s.pokes.len() {
        let mut t = s.clone();
        t.pokes.remove(i);
        c.push(t);
        if s.pokes[i].1.len() > 1 {
            let mut t = s.clone();
            let l = t.pokes[i].1.len();
            t.pokes[i].1.truncate(l / 2);
            c.push(t);
            let mut t = s.clone();
            t.pokes[i].1.pop();
            c.push(t);
        }
    }
    for i in 0..s.regs.len() {
        let mut t = s.clone();
        t.regs.remove(i);
        c.push(t);
    }
    if s.psr.is_some() {
        let mut t = s.clone();
        t.psr = None;
        c.push(t);
    }
    if s.kb != IoSpec::Absent {
        let mut t = s.clone();
        t.kb = IoSpec::Absent;
        c.push(t);
        if s.kb != IoSpec::Bare {
            let mut t = s.clone();
            t.kb = IoSpec::Bare;
            c.push(t);
        }
    }
    if s.disp != IoSpec::Absent {
        let mut t = s.clone();
        t.disp = IoSpec::Absent;
        c.push(t);
        if s.disp != IoSpec::Bare {
            let mut t = s.clone();
            t.disp = IoSpec::Bare;
            c.push(t);
        }
    }
    // simpler configuration
    let f = s.flags;
    for (cond, g) in [
        (f.strict, FlagsS { strict: false, ..f }),
        (f.real_traps, FlagsS { real_traps: false, ..f }),
        (f.debug_frames, FlagsS { debug_frames: false, ..f }),
        (f.ignore_privilege, FlagsS { ignore_privilege: false, ..f }),
        (f.init != InitS::Known(0), FlagsS { init: InitS::Known(0), ..f }),
    ] {
        if cond {
            let mut t = s.clone();
            t.flags = g;
            c.push(t);
        }
    }
    c
}
