#!/usr/bin/env python3
"""Regenerates MANIFEST.json from the table below (single source of truth)."""
import json, subprocess
NA = {
 "C01": "pure function source -> image; no state, time, entropy or fault for a simulator to own (DESIGN.md §2)",
 "C02": "pure accept/reject function of one program; injected 'faults' there are input shapes, not environment faults",
 "C03": "pure function of text; a metamorphic pair is two independent stateless calls",
 "C04": "pure function of one string (panic/no-panic, span bounds); mutating an argument is input generation, not a fault in a medium the library reads from",
 "C05": "pure function of one token / operand",
 "C06": "finite enumeration of 2^16 words and all instructions: exhaustive checking, not a schedule",
 "C07": "finite enumeration of 2^16 words",
 "C23": "stateless queries on one symbol table; the one hash-order-dependent clause is worded to accept any answer",
 "C24": "pure function source -> line table",
 "C25": "pure function of one string and one index",
 "C35": "finite enumeration (2 x 16 x 2^16 values)",
 "C36": "pure function (print then parse) of one statement",
}
# id -> (technique, level text, level note, design ref)
CHECKS = json.load(open("checks.json"))
hooks_commits = [l.split()[0] for l in subprocess.run(["git","-C","/repo","log","--format=%h %s"],capture_output=True,text=True).stdout.splitlines() if " verif hook:" in l or l.split(" ",1)[1].startswith("verif hook")]
m = {
 "version": 1,
 "setup_cmd": "cd /verif && ./check build",
 "hooks": {
   "guard": "--cfg endorpersand_lc3_ensemble_verif",
   "enable": "RUSTFLAGS via /verif/dst/.cargo/config.toml: --cfg endorpersand_lc3_ensemble_verif (the harness crate depends on /repo by path, so every check rebuilds the library from the working tree with the cfg on)",
   "baseline_off_cmd": "cd /repo && cargo test --workspace --no-fail-fast --offline",
   "source_commits": hooks_commits,
   "add_only": True,
 },
 "engines": [
   {"name": "dst", "path": "/verif/dst", "serves_properties": sorted(CHECKS.keys()),
    "kind_free_text": "seeded deterministic simulator: one PRNG per run decides scenario, schedule and faults; real lc3-ensemble library driven through its ExternalDevice / lock / entropy / WordFiller seams; replay files carry the explicit scenario"}
 ],
 "checks": [],
 "not_applicable": [{"property_id": k, "reason": v} for k, v in sorted(NA.items())],
 "notes": "Deterministic simulation with fault injection; see DESIGN.md. Properties not yet listed under checks or not_applicable are listed under not_applicable with reason 'not yet built' until their check exists.",
}
allp = [json.loads(l)["id"] for l in open("properties.jsonl")]
for pid in allp:
    if pid in CHECKS:
        c = CHECKS[pid]
        m["checks"].append({
          "property_id": pid,
          "quick_cmd": f"./check {pid} quick",
          "thorough_cmd": f"./check {pid} thorough",
          "evidence_file": f"/verif/evidence/{pid}.json",
          "replay_cmd_template": f"./check {pid} --replay {{path}}",
          "engine": "dst",
          "level_claimed": {"category": "exploration", "text": c["level_text"], "design_ref": c["design_ref"]},
          "level_note": c["level_note"],
          "technique": c["technique"],
        })
    elif pid not in NA:
        m["not_applicable"].append({"property_id": pid, "reason": "claimed in DESIGN.md but its check is not built yet in this revision; nothing is asserted for it"})
json.dump(m, open("MANIFEST.json","w"), indent=1)
print("checks:", [c["property_id"] for c in m["checks"]])
